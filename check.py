#!/venv/bin/python
"""Entry point of every check:  check.py <Cxx> [--tier quick|thorough] [--replay FILE]

Runs against the current working tree of /repo (or $VERIF_REPO, used only by
the development-time mutation sweep).  Exit 0: held; 1: VIOLATION; 2: harness error.
"""
import os
import sys

HERE = os.path.dirname(os.path.abspath(__file__))

if os.environ.get("PYTHONHASHSEED") != "0":
    os.environ["PYTHONHASHSEED"] = "0"
    os.execv(sys.executable, [sys.executable] + sys.argv)

REPO = os.environ.get("VERIF_REPO", "/repo")
os.environ.setdefault("FUMITOH_MODELX_VERIF", "1")
for p in (os.path.join(HERE, ".deps"), HERE, REPO):
    if p in sys.path:
        sys.path.remove(p)
    sys.path.insert(0, p)
# sub-interpreters started by the checks inherit the same view
os.environ["PYTHONPATH"] = os.pathsep.join([REPO, HERE, os.path.join(HERE, ".deps")])


def main(argv):
    import argparse
    ap = argparse.ArgumentParser()
    ap.add_argument("prop")
    ap.add_argument("--tier", default=os.environ.get("VERIF_TIER", "quick"), choices=["quick", "thorough"])
    ap.add_argument("--replay")
    ap.add_argument("--seed", type=int, default=None)
    a = ap.parse_args(argv)
    seed = a.seed if a.seed is not None else int(os.environ.get("VERIF_SEED", "1") or 1)
    try:
        import modelx
        assert os.path.realpath(modelx.__file__).startswith(os.path.realpath(REPO)), modelx.__file__
        from vf import runner
        if a.replay:
            return runner.run_replay(a.prop.upper(), a.replay)
        return runner.run_property(a.prop.upper(), a.tier, seed)
    except SystemExit:
        raise
    except BaseException:
        import traceback
        print("HARNESS ERROR")
        traceback.print_exc()
        return 2


if __name__ == "__main__":
    sys.exit(main(sys.argv[1:]))
