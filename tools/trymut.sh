#!/bin/sh
# tools/trymut.sh <patch.diff> <Cxx> [seed]  : run one quick check against a scratch worktree with the patch applied
set -e
P=$1; C=$2; S=${3:-1}
W=/tmp/mut/try_$$
git -C /repo worktree add -q --detach $W HEAD
git -C $W apply $P || git -C $W apply --3way $P
VERIF_REPO=$W /venv/bin/python /verif/check.py $C --seed $S 2>&1 | grep -v conda | cut -c1-${COLS:-300} | tail -${LINES_:-6} || true
rm -f /verif/replays/*/found_*
git -C /repo worktree remove --force $W
