"""(re)generate /verif/MANIFEST.json from the table below and validate it."""
import json
import os
import sys

HERE = os.path.dirname(os.path.dirname(os.path.abspath(__file__)))
PY = "/venv/bin/python"

# id -> (level, technique, text, note)
CHECKS = {
    "C01": ("exploration",
            "property-based testing (Hypothesis): generated models and query orders vs. a cache-less reference interpreter and an exact execution-log oracle",
            "Generated static models from a terminating formula grammar are queried in generated orders and spellings; "
            "every answer is compared with an independent cache-less interpreter and the log of formula executions must equal, "
            "as a sequence, the log predicted under 'each cached element runs once while held'. Exploration of a large "
            "but finite sample; no claim beyond the generated sizes.",
            "trusts vf/ref.py (reference name resolution and evaluation order), the _t tick reference as observation point, small-int arguments"),
    "C02": ("exploration",
            "property-based testing of generated edit/evaluation histories (Hypothesis) against a cold twin model that replays only the edits (differential oracle)",
            "Generated models (inheritance, ItemSpaces, uncached cells, object references, attribute paths) go through generated "
            "histories of evaluations and every edit kind the statement lists; after each edit a fresh model is built from the "
            "edits alone and both must accept the same edits and answer a battery of queries identically. A sample of the history "
            "space; the evidence lists which edit kinds actually required invalidation.",
            "the twin is modelx itself (detects cache-induced differences only); battery arguments 0..1; dangling object references are not generated"),
    "C03": ("exploration",
            "exhaustive enumeration of all ordered-base DAGs on <=4 spaces x definer subsets x construction orders and of single-base removal/re-addition on edge-by-edge built DAGs of 4-5 spaces, plus Hypothesis-generated member/base edit histories, against derivation from scratch with an independent C3",
            "Every ordered-base inheritance DAG on up to four spaces is built in three construction orders with every non-empty "
            "definer subset, and generated edit histories (define/redefine/delete/rename/override/un-override, add/remove bases) "
            "are replayed; after each step membership, derived flags, formula sources, reference values, bases and evaluated "
            "values of every space must equal derivation from scratch along the harness's own C3. The n<=4 part is exhaustive; "
            "histories are a sample.",
            "trusts the harness C3 (cross-checked against Python's class MRO), accept-follows-real for which edits are accepted; allow_none propagation and member order not asserted"),
    "C04": ("exploration",
            "round-trip property testing (Hypothesis): describe(read(write(m))) == describe(m) for full-vocabulary models x {dir, zip} x write-read chains, plus zip/dir file parity and value batteries",
            "Models over the full serialisable vocabulary (inheritance, parameter formulas, lambda/def cells, flags, docs with awkward "
            "characters, literal/pickled/module/object references in all modes, inputs incl. ItemSpace inputs) are written and read "
            "back in both container formats through chains of up to three generations; the public description and a query "
            "battery must be preserved, writing must not change the model, and zip and directory must hold the same files.",
            "public description of vf/describe.py; pickle files compared through the loaded models; allow_none of derived copies not compared"),
    "C05": ("fault_enumeration",
            "fault injection over generated dependency DAGs (Hypothesis): every reachable element in turn is the failure point, x exception kinds x prior holdings x repair, checked against holdings and execution logs predicted from reference call trees; depth probes for set_recursion and a subprocess survival run",
            "For each generated DAG model every element reachable from the top query is made to fail in turn (one harness fault "
            "tag per element), with several exception kinds, None results, deleted references, with and without values held "
            "before, with formula errors on and off, followed by disarm/repair and retry. After each evaluation the error "
            "wrapper and original exception, the exact set of held elements, the execution log, the executor's stacks and the "
            "library self-checks are compared with the prediction. Fault positions are enumerated per model; models are sampled.",
            "faults are exceptions (or None results) raised at formula level by a harness function; executor internals are peeked via getattr; depth boundary k..k+1 is not asserted"),
    "C06": ("exploration",
            "property-based testing (Hypothesis) of value-edit histories against an exact-discard oracle built from the reference interpreter's call trees plus the execution log",
            "Generated DAG models are warmed up and then edited element by element (assign, overwrite, clear_at, clear, clear_all, "
            "space/model clear_all, unrelated reference changes) under both recalc settings; after every step the set of held "
            "elements, their values, the is_input flags and the formulas executed must be exactly what 'discard the edited "
            "element's transitive dependents and nothing else' predicts. Edits are aimed at held elements that have dependents.",
            "dependency relation from vf/ref.py + vf/memo.py; recalc-on compares final states only; inputs inside ItemSpaces are not asserted to survive re-creation of the instance"),
    "C07": ("exploration",
            "stateful property-based testing (Hypothesis) of parametrised spaces: instance evaluations in all argument spellings, assignments, base edits and handle captures, against the reference interpreter's instance semantics, an exact held-set/execution-log oracle and identity invariants",
            "Models with parameter formulas (defaults, returned references, base switching, nested parametrised children) are driven "
            "through histories of instance evaluations in every spelling, assignments inside instances, edits of the base and handle "
            "captures. Equal bindings must give the same object and one itemspaces entry; instance values and the log of which "
            "formula ran in which instance must match the reference; the set of held values must be exactly the predicted one "
            "(isolation); old handles must be deleted or be the registered instance.",
            "instance semantics of vf/ref.py; exact invalidation after base edits is left to C02/C06 (held set is resynchronised, values still checked)"),
    "C08": ("exploration",
            "property-based testing (Hypothesis) of evaluation/failure/edit histories; preds/succs/precedents and the trace graph compared with edges folded from the reference interpreter's call trees",
            "The fault plans of C05 and the value-edit histories of C06 are replayed; after every step, for every element holding a "
            "computed value, preds(), succs() and the reference part of precedents() are compared with what the reference "
            "interpreter recorded when the element was computed, and the keyed nodes of model.tracegraph must be exactly the "
            "held elements, acyclic, without deleted objects.",
            "reference call trees (vf/ref.py, vf/memo.py); references compared by name; orphan object nodes of uncached cells tolerated"),
    "C09": ("exploration",
            "differential testing: each Hypothesis-generated history is replayed under all 2^n initial cached-flag assignments (n<=5, exhaustive per case) and compared with the all-cached run",
            "Every generated history (evaluations, reference/formula/membership/base edits, flag flips) is replayed under every "
            "initial assignment of the cached flag to up to five chosen cells; all query outcomes must equal the all-cached run. "
            "Uncached cells must hold no values, run on every call, accept unhashable arguments and reject assignment.",
            "None-returning formulas and assignments to flag-carrying cells are outside the generated domain; per-case enumeration of assignments is exhaustive, cases are sampled"),
    "C10": ("exploration",
            "exhaustive enumeration of the definer x target x mode x deriver x order grid over a fixed space tree, each cell followed by edit / base-change / rename / save-load follow-ups, against the binding rule computed from the statement",
            "Every combination of definer position (A, A.B, A.B.C), target placement (itself, own cells, descendant space, cells in a "
            "descendant, ancestor, outside space, outside cells), mode and deriver (static sub via bases= or add_bases, ItemSpace of the "
            "definer, of an ancestor, nested ItemSpace), with the reference set before or after the deriver exists, is built; the "
            "binding and mode in the deriving space are compared by identity with the rule of the statement, documented rejections "
            "must be clean, and the rule must hold again after re-assignment, base removal/re-addition, override removal in a chain, "
            "removal of a first base, renaming and write/read. The grid is repeated in worlds where the outside target is a "
            "sibling whose name starts with the definer's name and where the deriving space has the definer's own name (nested "
            "under another parent, or at top level), and with an ItemSpace of a static sub as deriver. Exhaustive for these "
            "trees; other trees are not explored.",
            "static derivation is asserted only for targets 'the definer itself or its cells'; the tree shape is fixed"),
    "C11": ("exploration",
            "stateful property-based testing (Hypothesis): histories mixing valid edits with a catalogue of invalid requests; invariant 'description before == after' on every rejection and well-formedness (acyclic, C3, valid names) after every acceptance",
            "Generated histories interleave valid edits and evaluations with invalid requests covering each rejection reason x each "
            "operation that can trigger it. Whenever an operation raises, the public description of the whole model (definitions "
            "and inputs) must be unchanged, no held value may change, and the library self-checks must pass; whenever it is "
            "accepted, the base relation must stay acyclic with a C3 linearisation and names valid. Must-accept requests guard "
            "against rejecting everything.",
            "which requests are rejected is modelx's choice (accept-follows-real); dropping computed (non-input) values on a rejection is allowed"),
    "C12": ("exploration",
            "stateful property-based testing (Hypothesis): naming/base-change histories over a tiny shared name pool with invariants over containers, dir(), attribute access, a formula-side namespace probe and the library self-checks",
            "Histories request the same few names as cells, references and child spaces, in single spaces and across base/sub pairs, "
            "with renames, deletions, base changes, model-level references and parameter formulas. After every step, in every space "
            "and in ItemSpaces, the three containers must be disjoint, dir() and the names a probe formula sees must equal their "
            "union, attribute access must give the object of the right kind, and the library's self-checks must pass.",
            "the precedence between a model-level reference and a child space of the same name is not asserted"),
    "C13": ("exploration",
            "stateful property-based testing (Hypothesis): build/evaluate/capture-handle/delete histories with a handle invariant (raises DeletedObjectError everywhere, or is the registered object), a reference for statically defined objects, trace-graph inspection and a cold-twin comparison after each deletion",
            "Handles to static and derived cells, spaces, ItemSpaces and their members are captured at arbitrary points of histories "
            "that delete through every trigger (direct deletion, base member/base relation removal, ItemSpace discarding, renames, "
            "formula changes). After every step each handle must either raise DeletedObjectError on every access or be the object "
            "registered under its parent and name up to the model; defined objects are alive exactly when not deleted; the trace "
            "graph mentions no deleted object; after deletions the model answers like a cold twin.",
            "for derived and dynamic objects both outcomes are accepted (C07); reference proxies are not handles"),
    "C14": ("fault_enumeration",
            "fault injection with a process-wide audit hook: every file-system event of write_model/read_model is a fault point in turn (exhaustive per case), plus consecutive-failure sequences, pickling faults and a file corruption sweep, over Hypothesis-generated models",
            "For generated models, both container formats and 0-4 earlier good saves, the save (or load) is replayed from a restored "
            "snapshot with an OSError injected at the k-th audited file-system event for every k; sequences of failed saves, "
            "values whose pickling/unpickling fails on demand and deletion/truncation/garbling of every saved file are also "
            "exercised. After each attempt the newest completely written version must be at the path or _BAK1, backups ordered, "
            "a zip destination complete, the session's serializing flags reset and the model registry unchanged.",
            "faults are exceptions at audited operation boundaries (no torn writes); the 'r+' re-open of the staging zip is not faulted because zipfile itself swallows that error"),
    "C15": ("exploration",
            "differential property testing (Hypothesis): generated export-subset models are exported and queried in a subprocess where importing modelx is blocked; results compared with the model, also for the flag-inverted variant",
            "Models inside the documented export subset (lambdas, comprehensions, nested lambdas, names shadowing built-ins incl. child "
            "spaces, literal/pickled/object references, inheritance, parameter formulas with defaults, nested ItemSpaces, cached and "
            "uncached cells) are exported; a modelx-free subprocess imports the package and evaluates every cells of every static "
            "space and of ItemSpaces; every value the model returns must be returned by the package, for the model and for its "
            "variant with all cached flags inverted.",
            "only queries answered with a value are compared; the documented limitations delimit the subset"),
    "C16": ("exploration",
            "property-based testing (Hypothesis) of generate_actions/execute_actions over generated DAGs x target lists x all step sizes, against the reference closure/call order and the execution log",
            "For generated DAG models, target lists (dependent targets in either order, input targets) and every step size from 1 to "
            "beyond the number of elements: generating actions must leave no calculated value, calc steps must cover the reference "
            "dependency closure exactly once in call order, and executing them must leave exactly the targets with the directly "
            "evaluated values while every cached element executes once.",
            "closure and order from vf/ref.py; ItemSpace instances are containers, not counted as calculated values"),
    "C17": ("fault_enumeration",
            "fault injection over line-laid-out DAG models (Hypothesis): every reachable element fails in turn, with earlier handled/unhandled failures; get_traceback()/get_error()/trace_locals() compared with the chain unwound by the reference interpreter and generated line numbers",
            "Formulas are generated with a known line for every call; each reachable element is made to fail in turn (exceptions, "
            "BaseException, None results) in histories that contain earlier failures and failures handled by formulas. The "
            "traceback must equal the reference's unwound chain with exact line numbers, get_error() the original exception.",
            "line numbers refer to the generated source; after-return failures are listed with line 0 as documented"),
    "C18": ("exploration",
            "stateful property-based testing (Hypothesis): IOSpec life-cycle histories with the invariant 'model.iospecs == spec-carrying values bound to >=1 reference' evaluated by walking all references, io-manager inspection, and write/read of live specs",
            "Histories of new_pandas (csv, excel sheets; fresh, taken, cells and space names; claimed paths), further bindings, "
            "rebinding to other and to the same value, overriding a derived reference and deleting the base one, deletions, "
            "update_pandas, base changes, space deletion and model close over one or two models. After every step the specs of "
            "each model must be exactly those of values still referenced, the io manager must hold nothing else, locations must be "
            "unique, rejected creations must leave nothing, and live values must survive write/read.",
            "identity of values as documented; pandas csv/excel only (ModuleData and ExcelRange share the same bookkeeping)"),
    "C19": ("exploration",
            "stateful property-based testing (Hypothesis-generated registry histories) against a dict reference model plus isolation invariants over public descriptions",
            "Histories of new_model / write+read_model / rename (with and without rename_old, onto free, taken, already-suffixed "
            "and invalid names) / close / edits / evaluations over up to five open models, some holding references into others. "
            "After every step the registry must map every open model's name to that model, collisions must rename the old model "
            "to a _BAK name without overwriting, and the descriptions and held values of untouched models must be unchanged.",
            "dict reference of the documented naming rules; closed handles are not operated on"),
    "C20": ("exploration",
            "grammar-based property testing (Hypothesis) of function texts x delivery forms against plain Python (exec of the original text), with round-trip/idempotence and metamorphic rename/doc-edit relations",
            "Function texts are generated from a grammar of syntactic shapes (decorators, docstring quotings, comments in all "
            "positions, nested defs/lambdas/classes, comprehensions, multi-line expressions, odd indentation, embedded lambdas) and "
            "delivered as source, as function objects imported from generated module files, and as lambda objects. The cells must "
            "behave like the plain function, formula.source must compile standalone and reproduce itself, rename must change only "
            "the name token and a doc edit only the docstring (or be rejected inertly).",
            "identity decorators only (modelx strips decorators by design); two lambdas on one line are not generated for lambda objects"),
}

NOT_YET = {
}

ALL = ["C%02d" % i for i in range(1, 21)]


def main():
    checks = []
    for pid in ALL:
        if pid not in CHECKS:
            continue
        level, tech, text, note = CHECKS[pid]
        checks.append({
            "property_id": pid,
            "quick_cmd": "%s check.py %s --tier quick" % (PY, pid),
            "thorough_cmd": "%s check.py %s --tier thorough" % (PY, pid),
            "evidence_file": "/verif/evidence/%s.json" % pid,
            "replay_cmd_template": "%s check.py %s --replay {path}" % (PY, pid),
            "engine": "vf",
            "level_claimed": {"category": level, "text": text, "design_ref": "DESIGN.md section 6, %s" % pid},
            "level_note": note,
            "technique": tech,
        })
    na = []
    for pid in ALL:
        if pid not in CHECKS:
            na.append({"property_id": pid,
                       "reason": NOT_YET.get(pid, "check not built yet in this round (the technique applies; see DESIGN.md section 6 for the plan)")})
    man = {
        "version": 1,
        "setup_cmd": "%s tools/setup.py" % PY,
        "hooks": {
            "guard": "FUMITOH_MODELX_VERIF",
            "enable": "no source hooks are needed: observation goes through model-level references and sys.addaudithook; check.py sets FUMITOH_MODELX_VERIF=1 for uniformity",
            "baseline_off_cmd": "cd /repo && env -u FUMITOH_MODELX_VERIF /venv/bin/python -m pytest -ra -q -p no:cacheprovider --timeout=900 --continue-on-collection-errors",
            "source_commits": [],
            "add_only": True,
        },
        "engines": [{
            "name": "vf",
            "path": "/verif/vf",
            "serves_properties": sorted(CHECKS),
            "kind_free_text": "Hypothesis-driven generators of models/histories (as plain operation lists), a reference interpreter "
                              "independent of modelx, cold-twin and differential oracles, exhaustive enumerations of small finite "
                              "domains, audit-hook fault injection; harness-side delta debugging; replay bypasses Hypothesis",
        }],
        "checks": checks,
        "not_applicable": na,
        "notes": "All checks: /venv/bin/python check.py <id> --tier quick|thorough; VERIF_SEED selects the seed; exit 2 = harness error. "
                 "The thorough tier of every check with a Hypothesis strategy additionally runs 8 coverage-guided shards "
                 "(atheris/libFuzzer mutating the byte stream the same strategy decodes, modelx instrumented, same oracle); "
                 "seeded changes and what catches them: seeded/SUMMARY.md; findings: known_findings.json.",
    }
    path = os.path.join(HERE, "MANIFEST.json")
    with open(path, "w") as f:
        json.dump(man, f, indent=1)
    try:
        import jsonschema
        jsonschema.validate(man, json.load(open("/root/.vp/MANIFEST.schema.json")))
        print("MANIFEST.json valid; %d checks, %d not_applicable" % (len(checks), len(na)))
    except ImportError:
        print("written (jsonschema not available to validate)")


if __name__ == "__main__":
    main()
