"""MANIFEST.setup_cmd: make sure hypothesis and atheris are importable by /venv/bin/python (offline)."""
import os
import subprocess
import sys

HERE = os.path.dirname(os.path.dirname(os.path.abspath(__file__)))
DEPS = os.path.join(HERE, ".deps")


def have(mod):
    r = subprocess.run([sys.executable, "-c", "import sys; sys.path.insert(0, %r); import %s" % (DEPS, mod)],
                       capture_output=True)
    return r.returncode == 0


for mod, pkg in (("hypothesis", "hypothesis"), ("atheris", "atheris")):
    if not have(mod):
        os.makedirs(DEPS, exist_ok=True)
        subprocess.check_call([sys.executable, "-m", "pip", "install", "--no-index", "--find-links",
                               "/opt/veriftools/wheels", "--target", DEPS, pkg])
    assert have(mod), mod
for d in ("evidence", "replays"):
    os.makedirs(os.path.join(HERE, d), exist_ok=True)
print("setup ok")
