"""Run the repository's pinned test suite on a tree and compare with BASELINE.json.

usage: /venv/bin/python tools/baseline.py [repo_dir]     (default /repo)
exit 0 iff every test listed in stable_pass passes.
"""
import json
import os
import subprocess
import sys
import tempfile
import xml.etree.ElementTree as ET


def main():
    repo = sys.argv[1] if len(sys.argv) > 1 else "/repo"
    base = json.load(open("/root/.vp/BASELINE.json"))
    fd, xml = tempfile.mkstemp(suffix=".xml")
    os.close(fd)
    env = dict(os.environ)
    env.pop("FUMITOH_MODELX_VERIF", None)
    env["PYTHONPATH"] = repo
    cmd = ["/venv/bin/python", "-m", "pytest", "-q", "-p", "no:cacheprovider", "--timeout=900",
           "--continue-on-collection-errors", "--junitxml=" + xml, "-x" if "--x" in sys.argv else "-q"]
    p = subprocess.run(cmd, cwd=repo, env=env, capture_output=True, text=True)
    passed, failed = set(), set()
    root = ET.parse(xml).getroot()
    for tc in root.iter("testcase"):
        tid = (tc.get("classname") or "") + "::" + (tc.get("name") or "")
        tid = tid.replace(os.path.realpath(repo), "/repo").replace(repo.rstrip("/"), "/repo")
        if tc.find("failure") is not None or tc.find("error") is not None:
            failed.add(tid)
        elif tc.find("skipped") is None:
            passed.add(tid)
    os.remove(xml)
    passed -= failed
    # classnames are relative to the rootdir: identical for /repo and scratch copies
    missing = [t for t in base["stable_pass"] if t not in passed]
    print("passed %d, failed %d, stable_pass %d, stable tests not passing: %d" % (
        len(passed), len(failed), len(base["stable_pass"]), len(missing)))
    for t in missing[:20]:
        print("  NOT PASSING:", t)
    return 1 if missing else 0


sys.exit(main())
