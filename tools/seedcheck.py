"""Validate seeded defects and run the checks against them.

usage: tools/seedcheck.py <seed_root> [--props C01,C02] [--baseline] [--tier quick] [--extra C09:C02a]
For every <seed_root>/<Cxx>/<v>/patch.diff:
  - scratch worktree of /repo HEAD under /tmp/mut, `git apply` the patch
  - demo.py exits 1 on the patched tree and 0 on /repo
  - optional: pinned suite passes on the patched tree
  - the property's check (and any extra checks) exits 1 on the patched tree
Results are appended to <seed_root>/results.jsonl; scratch trees are removed.
"""
import json
import os
import subprocess
import sys
import time

PY = "/venv/bin/python"
VERIF = os.path.dirname(os.path.dirname(os.path.abspath(__file__)))


def sh(cmd, **kw):
    return subprocess.run(cmd, capture_output=True, text=True, **kw)


def main():
    root = sys.argv[1]
    props = None
    tier = "quick"
    baseline = "--baseline" in sys.argv
    extra = {}
    for i, a in enumerate(sys.argv):
        if a == "--props":
            props = sys.argv[i + 1].split(",")
        if a == "--tier":
            tier = sys.argv[i + 1]
        if a == "--also":       # --also C09=C02,C08  : run these checks too for seeds of C09
            for part in sys.argv[i + 1].split(";"):
                k, v = part.split("=")
                extra[k] = v.split(",")
    os.makedirs("/tmp/mut", exist_ok=True)
    man = json.load(open(os.path.join(VERIF, "MANIFEST.json")))
    have = {c["property_id"] for c in man["checks"]}
    for pid in sorted(os.listdir(root)):
        d = os.path.join(root, pid)
        if not os.path.isdir(d) or not pid.startswith("C"):
            continue
        if props and pid not in props:
            continue
        for v in sorted(os.listdir(d)):
            pd = os.path.join(d, v)
            patch = os.path.join(pd, "patch.diff")
            if not os.path.exists(patch):
                continue
            res = {"seed": "%s/%s" % (pid, v), "time": time.strftime("%H:%M:%S")}
            wt = "/tmp/mut/%s_%s" % (pid, v)
            sh(["git", "-C", "/repo", "worktree", "remove", "--force", wt])
            r = sh(["git", "-C", "/repo", "worktree", "add", "-q", "--detach", wt, "HEAD"])
            try:
                r = sh(["git", "-C", wt, "apply", patch])
                if r.returncode != 0:
                    r = sh(["git", "-C", wt, "apply", "--3way", patch])
                res["applies"] = r.returncode == 0
                if not res["applies"]:
                    res["apply_err"] = r.stderr[-300:]
                    print(json.dumps(res)); continue
                env = dict(os.environ, PYTHONPATH=wt)
                r = sh([PY, os.path.join(pd, "demo.py")], env=env, cwd="/tmp", timeout=600)
                res["demo_patched_exit"] = r.returncode
                env = dict(os.environ, PYTHONPATH="/repo")
                r = sh([PY, os.path.join(pd, "demo.py")], env=env, cwd="/tmp", timeout=600)
                res["demo_clean_exit"] = r.returncode
                if baseline:
                    r = sh([PY, os.path.join(VERIF, "tools", "baseline.py"), wt], timeout=1800)
                    res["baseline_ok"] = r.returncode == 0
                    if r.returncode != 0:
                        res["baseline_tail"] = r.stdout[-400:]
                checks = [pid] + extra.get(pid, [])
                res["checks"] = {}
                for c in checks:
                    if c not in have:
                        res["checks"][c] = "no-check-yet"
                        continue
                    env = dict(os.environ, VERIF_REPO=wt, VERIF_TIER=tier)
                    env.pop("PYTHONPATH", None)
                    t0 = time.time()
                    r = sh([PY, os.path.join(VERIF, "check.py"), c, "--tier", tier], env=env, cwd=VERIF, timeout=3600)
                    viol = [l for l in r.stdout.splitlines() if l.startswith("VIOLATION")]
                    detail = [l for l in r.stdout.splitlines() if l.startswith("  ")][:2]
                    res["checks"][c] = {"exit": r.returncode, "violations": len(viol),
                                        "detail": [x[:300] for x in detail], "wall": round(time.time() - t0, 1)}
                    # replays written against a scratch tree are not kept
                    # (only the files this run reported: another run against /repo may be going on)
                    for l in viol:
                        fp = l.split("replay=", 1)[-1].strip()
                        if os.path.basename(fp).startswith("found_") and os.path.exists(fp):
                            os.remove(fp)
            finally:
                sh(["git", "-C", "/repo", "worktree", "remove", "--force", wt])
            print(json.dumps(res))
            with open(os.path.join(root, "results.jsonl"), "a") as f:
                f.write(json.dumps(res) + "\n")
            sys.stdout.flush()


main()
