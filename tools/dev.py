"""development helper: run N generated cases of a property in-process and print failures
usage: PYTHONPATH=/repo:/verif /venv/bin/python tools/dev.py C01 200 [seed] [tier]
"""
import importlib
import json
import sys
import time
import traceback

sys.path.insert(0, "/verif")
import os
sys.path.insert(0, os.environ.get("VERIF_REPO", "/repo"))

import hypothesis
from hypothesis import given, settings, HealthCheck, Phase
import hypothesis.internal.conjecture.engine as _eng
_eng.BUFFER_SIZE = 64 * 1024
from vf.runner import exec_case


def main():
    pid = sys.argv[1]
    n = int(sys.argv[2])
    seed = int(sys.argv[3]) if len(sys.argv) > 3 else 1
    tier = sys.argv[4] if len(sys.argv) > 4 else "quick"
    prop = importlib.import_module("vf.props." + pid.lower())
    stats = {"n": 0, "nt": 0, "disc": 0, "fail": 0, "labels": {}, "counters": {}}
    fails = []
    t0 = time.time()

    def one(case):
        try:
            out = exec_case(prop, case)
        except Exception:
            print("HARNESS EXC on case", json.dumps(case)[:3000])
            traceback.print_exc()
            raise
        stats["n"] += 1
        stats["nt"] += bool(out.nontrivial)
        stats["disc"] += bool(out.discard)
        for l in out.labels:
            stats["labels"][l] = stats["labels"].get(l, 0) + 1
        for k, v in out.counters.items():
            stats["counters"][k] = stats["counters"].get(k, 0) + v
        if out.failure:
            stats["fail"] += 1
            key = out.failure["oracle"]
            if len([f for f in fails if f[1]["oracle"] == key]) < 3:
                fails.append((case, out.failure))

    enum = getattr(prop, "enumerate_cases", None)
    if enum is not None and os.environ.get("DEV_ENUM"):
        for j, case in enumerate(enum(tier, seed)):
            if j >= n:
                break
            one(case)
    else:
        @hypothesis.seed(seed)
        @settings(max_examples=n, database=None, deadline=None, phases=[Phase.generate],
                  suppress_health_check=list(HealthCheck))
        @given(prop.strategy(tier))
        def test(case):
            one(case)
        test()
    print(json.dumps(stats, indent=1, default=str))
    print("wall %.1fs" % (time.time() - t0))
    for case, f in fails:
        print("=" * 70)
        print(f["oracle"], "step", f.get("step"))
        print(f["detail"])
        if os.environ.get("DEV_SHOW"):
            for i, op in enumerate(case.get("ops", [])):
                print("  ", i, json.dumps(op))
    if fails and os.environ.get("DEV_SAVE"):
        with open(os.environ["DEV_SAVE"], "w") as fh:
            json.dump(fails[0][0], fh, indent=1)
    seen = {}
    for case, f in fails:
        seen.setdefault(f["oracle"], case)
    for o, case in seen.items():
        with open("/tmp/devfail_%s_%s.json" % (pid, o), "w") as fh:
            json.dump(case, fh, indent=1)


main()
