"""shrink a failing case file with the harness ddmin: tools/shrink.py C03 in.json out.json"""
import importlib, json, sys, time, os
sys.path.insert(0, "/verif"); sys.path.insert(0, os.environ.get("VERIF_REPO", "/repo"))
from vf import runner
from vf.expr import cells_source
pid, src, dst = sys.argv[1:4]
prop = importlib.import_module("vf.props." + pid.lower())
case = json.load(open(src)); case.pop("_failure", None)
out = prop.run_case(case)
assert out.failure, "does not fail"
small, fl = runner.ddmin(prop, case, out.failure, [], time.time() + 120)
json.dump(small, open(dst, "w"), indent=1)
print(fl["oracle"], fl.get("step"), fl["detail"][:600])
for i, op in enumerate(small["ops"]):
    if op[0] in ("new_cells",):
        print(i, op[0], op[1], op[2]["name"], "cached" if op[2].get("cached", True) else "UNCACHED", repr(cells_source(op[2])))
    elif op[0] == "set_cells_formula":
        print(i, op[0], op[1], op[2], repr(cells_source(dict(op[3], name=op[2]))))
    else:
        print(i, json.dumps(op))
