#!/bin/sh
# tools/sweep.sh <tier> <seed> [<seed> ...] : every check at every seed on /repo; prints one line per run and a verdict
T=$1; shift
BAD=0
for S in "$@"; do
  for C in C01 C02 C03 C04 C05 C06 C07 C08 C09 C10 C11 C12 C13 C14 C15 C16 C17 C18 C19 C20; do
    OUT=$(VERIF_SEED=$S /venv/bin/python /verif/check.py $C --tier $T --seed $S 2>&1); RC=$?
    echo "$OUT" | grep -v conda | grep "^$C $T\|VIOLATION\|HARNESS" | cut -c1-220
    if [ $RC -ne 0 ]; then BAD=$((BAD+1)); echo "  !! exit $RC for $C seed $S"; echo "$OUT" | grep -A1 VIOLATION | head -6 | cut -c1-400; fi
  done
done
echo "sweep done: $BAD non-zero exits"
