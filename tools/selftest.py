"""Self-tests of the harness's own reference pieces (run by hand / by setup):
  - vf.ref.c3 agrees with Python's class MRO on all ordered-base DAGs of <=5 nodes (consistent or not)
"""
import itertools
import sys
import os
sys.path.insert(0, os.path.dirname(os.path.dirname(os.path.abspath(__file__))))
from vf.ref import c3
from vf.props.c03 import all_dags


def python_mro(dag):
    classes = []
    for i, bases in enumerate(dag):
        classes.append(type("N%d" % i, tuple(classes[b] for b in bases) or (object,), {}))
    return [[int(c.__name__[1:]) for c in k.__mro__ if c is not object] for k in classes]


n_ok = n_bad = 0
for n in (2, 3, 4, 5):
    for dag in all_dags(n):
        direct = {i: list(b) for i, b in enumerate(dag)}
        try:
            want = python_mro(dag)
        except TypeError:
            want = None
        try:
            got = [c3(i, direct) for i in range(n)]
        except TypeError:
            got = None
        if want is None or got is None:
            # Python refuses at the first inconsistent class; ours must refuse somewhere too
            assert (want is None) == (got is None), (dag, want, got)
            n_bad += 1
        else:
            assert got == want, (dag, got, want)
            n_ok += 1
print("c3 agrees with Python's MRO on %d consistent and %d inconsistent ordered-base DAGs" % (n_ok, n_bad))
