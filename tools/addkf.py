"""tools/addkf.py <id> <property> <status> <commit|-> <replay> <title...>  : append an entry to known_findings.json"""
import json, sys, os
V = os.path.dirname(os.path.dirname(os.path.abspath(__file__)))
kid, prop, status, commit, replay = sys.argv[1:6]
title = " ".join(sys.argv[6:])
p = os.path.join(V, "known_findings.json")
d = json.load(open(p))
assert all(e["id"] != kid for e in d["findings"]), "duplicate id"
assert os.path.exists(os.path.join(V, replay)), replay
e = {"id": kid, "property": prop, "status": status, "commit": None if commit == "-" else commit,
     "title": ("fixed: property=%s %s %s" % (prop, commit, title)) if status == "fixed" else title,
     "replay": replay, "signature": None}
d["findings"].append(e)
d["findings"].sort(key=lambda e: (e["property"], int(e["id"].rsplit("-", 1)[1])))
json.dump(d, open(p, "w"), indent=1)
print("added", kid)
