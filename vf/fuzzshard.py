"""Coverage-guided shard: libFuzzer (atheris) mutates the byte stream that Hypothesis turns into a case.

Run as a subprocess by vf/runner.py (libFuzzer ends the process itself):

    python -m vf.fuzzshard <Cxx> <tier> <seed> <idx> <runs> <wall_s> <out.json>

The property's own strategy decodes the bytes (`test.hypothesis.fuzz_one_input`), so every input is a
well-formed case; modelx is instrumented for coverage, the harness is not.  The oracle is the property's
run_case, exactly as in the random shards.  Statistics are written to <out.json> every 50 executions and
when a failure is found (atexit handlers do not run under libFuzzer); the first failure is shrunk with the
harness' ddmin and ends the shard.
"""
import importlib
import json
import os
import sys
import time


def main():
    pid, tier, seed, idx, runs, wall, outp = sys.argv[1:8]
    seed, idx, runs, wall = int(seed), int(idx), int(runs), float(wall)
    import atheris
    with atheris.instrument_imports(include=["modelx"]):
        import modelx  # noqa: F401
    import hypothesis
    from hypothesis import given, settings, HealthCheck
    import hypothesis.internal.conjecture.engine as _eng
    _eng.BUFFER_SIZE = 64 * 1024
    from vf import runner
    prop = importlib.import_module("vf.props." + pid.lower())
    active_ids = json.loads(os.environ.get("VERIF_ACTIVE_KNOWN", "[]"))
    active = [e for e in runner.load_findings(pid) if e["id"] in active_ids]
    st = {"evaluations": 0, "discarded": 0, "nontrivial": [], "labels": {}, "counters": {}, "samples": [],
          "known_hits": {}, "failures": [], "budget_exhausted": False, "idx": idx, "fuzz": True, "wall": 0.0}
    seen = set()
    t0 = time.time()

    def flush():
        st["wall"] = time.time() - t0
        tmp = outp + ".tmp"
        with open(tmp, "w") as f:
            json.dump(st, f, default=str)
        os.replace(tmp, outp)

    def finish():
        flush()
        sys.stdout.flush()
        os._exit(0)

    @settings(database=None, deadline=None, suppress_health_check=list(HealthCheck))
    @given(prop.strategy(tier))
    def test(case):
        if time.time() - t0 > wall:
            st["budget_exhausted"] = True
            finish()
        out = runner.exec_case(prop, case)
        if out.discard:
            st["discarded"] += 1
            return
        st["evaluations"] += 1
        for l in out.labels:
            st["labels"][l] = st["labels"].get(l, 0) + 1
        for k, v in out.counters.items():
            st["counters"][k] = st["counters"].get(k, 0) + v
        if out.nontrivial:
            h = runner.case_hash(case)
            if h not in seen:
                seen.add(h)
                st["nontrivial"].append(h)
                if len(st["samples"]) < 1:
                    st["samples"].append(case)
        if out.failure is not None:
            kf = runner.match_known(prop, active, case, out.failure)
            if kf:
                st["known_hits"][kf] = st["known_hits"].get(kf, 0) + 1
            else:
                small, fl = runner.ddmin(prop, case, out.failure, active, time.time() + 45)
                st["failures"].append({"case": small, "failure": fl})
                finish()
        if st["evaluations"] % 50 == 0:
            flush()
        if st["evaluations"] + st["discarded"] >= runs:
            finish()

    flush()
    argv = [sys.argv[0], "-seed=%d" % (runner.shard_seed(seed, pid, 1000 + idx) or 1), "-max_len=32768", "-len_control=0",
            "-runs=%d" % (runs * 4), "-verbosity=%s" % os.environ.get("VERIF_FUZZ_VERBOSE", "0"), "-print_final_stats=0"]
    atheris.Setup(argv, test.hypothesis.fuzz_one_input)
    atheris.Fuzz()
    finish()


if __name__ == "__main__":
    main()
