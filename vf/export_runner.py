"""Runs in a subprocess where importing modelx is blocked: imports an exported package and
evaluates queries.  usage: python export_runner.py <package parent dir> <package name> <queries.json>"""
import json
import sys

sys.modules["modelx"] = None        # any 'import modelx' raises ImportError


def main():
    parent, pkg, qfile = sys.argv[1:4]
    sys.path.insert(0, parent)
    out = {"import_error": None, "results": []}
    try:
        mod = __import__(pkg)
        model = mod.mx_model
    except BaseException as exc:
        out["import_error"] = "%s: %s" % (type(exc).__name__, exc)
        print(json.dumps(out))
        return
    for path, name, args in json.load(open(qfile)):
        try:
            o = model
            for part in path:
                if isinstance(part, dict):
                    a = part.get("a", [])
                    if part.get("sub"):
                        o = o[a[0]] if len(a) == 1 else o[tuple(a)]
                    else:
                        o = o(*a)
                else:
                    o = getattr(o, part)
            v = getattr(o, name)(*args)
            if isinstance(v, (int, float, str, bool)) or v is None:
                out["results"].append(["ok", v])
            else:
                out["results"].append(["ok", repr(v)])
        except BaseException as exc:
            out["results"].append(["err", type(exc).__name__])
    assert "modelx" not in [m for m in sys.modules if sys.modules[m] is not None and m.split(".")[0] == "modelx"]
    print(json.dumps(out))


main()
