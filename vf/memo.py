"""Harness-side model of what a memoising evaluator must hold: which elements
hold values, which element was computed from which (edges callee -> nearest
cached caller), predicted execution logs.  Built only from the reference
interpreter's call trees (vf.ref.Trace) - independent of modelx."""


class MemoSim:

    def __init__(self):
        self.held = set()       # cached cells elements (sid, name, key) and ItemSpace elements (sid, None, key)
        self.inputs = {}        # elem -> assigned value
        self.succ = {}          # elem -> set of elements computed from it (direct, through uncached cells)
        self.pred = {}          # elem -> set of elements it was computed from
        self.upred = {}         # elem -> set of (sid, name) of uncached cells it ran (directly or through uncached cells)
        self.refreads = {}      # elem -> set of (owner, name, how) read by its own formula when it was computed
        self.values = {}        # elem -> value the reference computed when the element acquired its value
        self.hits = 0           # cache hits inside formulas
        self.inversions = 0     # top-level requests for an element that was already held

    # -- evaluation ------------------------------------------------------------
    def simulate(self, trace, top):
        """Update the picture for an evaluation whose reference call tree is ``trace``.

        Returns the predicted execution log (elements whose formula runs, in order).
        """
        log = []
        failed = getattr(trace, "failed", {})
        fidx = {}       # elem -> number of failing executions replayed so far

        class _Abort(Exception):
            pass

        def link(elem, caller):
            if caller is not None:
                self.succ.setdefault(elem, set()).add(caller)
                self.pred.setdefault(caller, set()).add(elem)

        def run(elem, caller, top_level):
            cached = trace.cached.get(elem, True)
            if elem in self.inputs or (cached and elem in self.held):
                if top_level:
                    self.inversions += 1
                else:
                    self.hits += 1
                link(elem, caller)
                return
            if elem not in trace.calls:
                if elem in failed:
                    # on the failing chain: runs, completes some callees, acquires no value
                    if elem[1] is not None:
                        log.append(elem)
                    inner = elem if cached else caller
                    seq = getattr(trace, "failed_seq", {}).get(elem) or [failed[elem]]
                    occ = fidx.get(elem, 0)
                    fidx[elem] = occ + 1
                    for callee in seq[min(occ, len(seq) - 1)][0]:
                        try:
                            run(callee, inner, False)
                        except _Abort:
                            # either handled by this formula or the failure that ends it: in both cases
                            # the recorded call list says what ran next
                            purge()
                    raise _Abort()
                return
            if elem[1] is not None:
                log.append(elem)
            inner = elem if cached else caller
            if not cached and caller is not None:
                self.upred.setdefault(caller, set()).add((elem[0], elem[1]))
            for callee in trace.calls[elem]:
                try:
                    run(callee, inner, False)
                except _Abort:
                    # this element completed in the reference: its formula handled the failure itself
                    purge()
            if cached:
                self.held.add(elem)
                self.refreads[elem] = set(trace.refreads.get(elem, ()))
                if elem in trace.values:
                    self.values[elem] = trace.values[elem]
                link(elem, caller)
        def purge():
            # elements on a failing chain acquired no value: forget the links recorded towards them
            for e in [e for e in list(self.pred) if e not in self.held and e not in onstack]:
                for p in self.pred.pop(e, ()):
                    self.succ.get(p, set()).discard(e)
                self.upred.pop(e, None)
            # (uncached callees noted for an element that then failed, whether or not anything was linked to it)
            for e in [e for e in list(self.upred) if e not in self.held and e not in onstack]:
                self.upred.pop(e, None)

        onstack = set()
        orig_run = run

        def run_tracked(elem, caller, top_level):
            onstack.add(elem)
            try:
                orig_run(elem, caller, top_level)
            finally:
                onstack.discard(elem)
        run = run_tracked
        try:
            run(top, None, True)
        except _Abort:
            onstack.clear()
            purge()
        return log

    # -- discarding -------------------------------------------------------------
    def dependents(self, elem):
        """transitive closure of 'was computed from' starting at elem (excluding elem)"""
        out = set()
        todo = [elem]
        while todo:
            e = todo.pop()
            for s in self.succ.get(e, ()):
                if s not in out:
                    out.add(s)
                    todo.append(s)
        out.discard(elem)
        return out

    def _remove(self, elems):
        for e in elems:
            self.held.discard(e)
            self.inputs.pop(e, None)
            self.values.pop(e, None)
            self.upred.pop(e, None)
            self.refreads.pop(e, None)
            for p in self.pred.pop(e, ()):
                self.succ.get(p, set()).discard(e)
            for s in self.succ.pop(e, ()):
                self.pred.get(s, set()).discard(e)

    def discard(self, elem):
        """discard elem and everything computed from it; returns the discarded set"""
        gone = self.dependents(elem) | ({elem} if elem in self.held else set())
        gone = self._with_contained(gone)
        self._remove(gone)
        return gone

    def _with_contained(self, gone):
        """discarding an ItemSpace element discards every element inside it (and their dependents)"""
        changed = True
        gone = set(gone)
        while changed:
            changed = False
            for g in list(gone):
                if g[1] is None:
                    prefix = g[0] + (g[2],)
                    for h in list(self.held):
                        if h not in gone and h[0][:len(prefix)] == prefix:
                            gone.add(h)
                            gone |= self.dependents(h)
                            changed = True
        return gone

    def discard_many(self, elems):
        gone = set()
        for e in elems:
            if e in self.held:
                gone |= self.dependents(e) | {e}
        gone = self._with_contained(gone)
        self._remove(gone)
        return gone

    def assign(self, elem, value):
        gone = self.discard(elem)
        self.held.add(elem)
        self.inputs[elem] = value
        return gone

    def leaf_dependents(self, elem):
        return {d for d in self.dependents(elem) if not self.succ.get(d)}

    def memory(self):
        """{elem: value} of computed elements currently held (ItemSpace elements excluded)"""
        mem = {e: v for e, v in self.values.items() if e in self.held and e[1] is not None}
        for e in self.held:
            if e[1] is None:
                mem[e] = True       # existing ItemSpaces
        return mem
