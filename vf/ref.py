"""Reference semantics for modelx models, written from the statements of the
properties and independent of modelx: a naive, cache-less evaluator that
derives inheritance from scratch on every question (own C3), resolves names as
the properties state, and records what it did (callees, reference reads).

Nothing in here imports modelx.
"""

import builtins as _builtins
import inspect

from .expr import BINOPS


# ----------------------------------------------------------------------------
# exceptions mirrored by *name* (the harness compares type names only)

class NoneReturnedError(Exception):
    pass


class DeepReferenceError(Exception):
    pass


class HarnessError(Exception):
    """custom exception kind raised by an armed fault point"""


class HarnessAbort(BaseException):
    """fault kind that is not an Exception subclass (like KeyboardInterrupt)"""


class Budget(Exception):
    """reference evaluation exceeded its step budget: the case is discarded"""


FAULT_KINDS = {
    "ZeroDivisionError": ZeroDivisionError,
    "KeyError": KeyError,
    "ValueError": ValueError,
    "HarnessError": HarnessError,
    "HarnessAbort": HarnessAbort,
    "SharedValueError": ValueError,
}


# ----------------------------------------------------------------------------
# C3

def c3_merge(seqs):
    seqs = [list(s) for s in seqs]
    res = []
    while True:
        seqs = [s for s in seqs if s]
        if not seqs:
            return res
        cand = None
        for s in seqs:
            c = s[0]
            if not any(c in t[1:] for t in seqs):
                cand = c
                break
        if cand is None:
            raise TypeError("inconsistent hierarchy")
        res.append(cand)
        for s in seqs:
            if s[0] == cand:
                del s[0]


def c3(node, direct, _stack=()):
    """C3 linearisation of ``node`` given ``direct``: node -> ordered direct bases."""
    if node in _stack:
        raise ValueError("cyclic inheritance")
    bases = list(direct.get(node, ()))
    seqs = [c3(b, direct, _stack + (node,)) for b in bases] + [bases]
    return [node] + c3_merge(seqs)


# ----------------------------------------------------------------------------
# definitions

class Obj:
    """object-valued reference value: a path to a space or cells of the model"""
    __slots__ = ("path",)

    def __init__(self, path):
        self.path = tuple(path)

    def __eq__(self, other):
        return isinstance(other, Obj) and other.path == self.path

    def __hash__(self):
        return hash(("Obj", self.path))

    def __repr__(self):
        return "Obj(%s)" % ".".join(self.path)


class RCells:
    def __init__(self, name, params, expr, cached=True, allow_none=None, form="lambda", doc=None, tick=True):
        self.tick = tick
        self.terms = None           # deflines layout: list of term expressions (expr is their sum)
        self.guards = None          # deflines layout: per term 0 plain / 1 try-finally / 2 try-except(never matches)
        self.tickname = name        # the name written into the tick call (survives renames)
        self.name = name
        self.params = [list(p) for p in params]
        self.expr = expr
        self.cached = cached
        self.allow_none = allow_none
        self.form = form
        self.doc = doc

    def copy(self):
        c = RCells(self.name, self.params, self.expr, self.cached, self.allow_none, self.form, self.doc, self.tick)
        c.tickname = self.tickname
        c.terms = self.terms
        c.guards = self.guards
        return c

    def signature(self):
        return make_sig(self.params)

    def as_dict(self):
        return {"name": self.name, "params": self.params, "expr": self.expr, "cached": self.cached,
                "allow_none": self.allow_none, "form": self.form, "doc": self.doc, "tick": self.tick,
                "tickname": self.tickname, "terms": self.terms, "guards": self.guards}


def make_sig(params):
    ps = []
    for p, d in params:
        ps.append(inspect.Parameter(
            p, inspect.Parameter.POSITIONAL_OR_KEYWORD,
            default=inspect.Parameter.empty if d is None else d))
    return inspect.Signature(ps)


class RRef:
    def __init__(self, value, mode="auto"):
        self.value = value
        self.mode = mode


class RSpace:
    def __init__(self, name, parent):
        self.name = name
        self.parent = parent            # RSpace or None (model level)
        self.children = {}
        self.cells = {}                 # defined cells only
        self.refs = {}                  # defined references only
        self.bases = []                 # ordered direct bases (paths)
        self.formula = None             # {"params": [[p, d]], "ret": None | {"base": path|None, "refs": {n: expr}}}
        self.allow_none = None
        self.doc = None

    @property
    def path(self):
        if self.parent is None:
            return (self.name,)
        return self.parent.path + (self.name,)


class RModel:
    def __init__(self):
        self.spaces = {}
        self.refs = {}                  # model-level references: name -> value
        self.allow_none = False
        self.doc = None
        self.inputs = {}                # (sid, cellsname) -> {key: value}
        self.armed = {}                 # fault tag -> exception kind name
        self.maxdepth = None

    # -- navigation ----------------------------------------------------------
    def space(self, path):
        s = self.spaces[path[0]]
        for n in path[1:]:
            s = s.children[n]
        return s

    def has_space(self, path):
        try:
            self.space(path)
            return True
        except KeyError:
            return False

    def all_spaces(self):
        out = []

        def rec(s):
            out.append(s)
            for c in s.children.values():
                rec(c)
        for s in self.spaces.values():
            rec(s)
        return out

    def direct(self):
        return {s.path: [tuple(b) for b in s.bases] for s in self.all_spaces()}

    def mro(self, space):
        return [self.space(p) for p in c3(space.path, self.direct())]

    def subs(self, space):
        """all spaces (excluding itself) having ``space`` in their linearisation"""
        return [s for s in self.all_spaces() if s is not space and space in self.mro(s)]

    # -- membership, derived from scratch ------------------------------------
    def find_cells(self, space, name):
        for s in self.mro(space):
            if name in s.cells:
                return s, s.cells[name]
        return None

    def find_ref(self, space, name):
        for s in self.mro(space):
            if name in s.refs:
                return s, s.refs[name]
        return None

    def cells_names(self, space):
        names = []
        for s in self.mro(space):
            for n in s.cells:
                if n not in names:
                    names.append(n)
        return names

    def ref_names(self, space):
        names = []
        for s in self.mro(space):
            for n in s.refs:
                if n not in names:
                    names.append(n)
        return names

    def effective_allow_none(self, space, cells_def, definer, dynamic=False):
        # cells -> space chain -> model
        if not dynamic and cells_def.allow_none is not None:
            return cells_def.allow_none
        if dynamic and cells_def.allow_none is not None:
            return cells_def.allow_none
        s = space
        while s is not None:
            if s.allow_none is not None:
                return s.allow_none
            s = s.parent
        return self.allow_none

    def resolve_obj(self, path):
        """('space', RSpace) or ('cells', RSpace, name) or None"""
        try:
            return ("space", self.space(path))
        except KeyError:
            pass
        try:
            sp = self.space(path[:-1])
        except (KeyError, IndexError):
            return None
        if self.find_cells(sp, path[-1]):
            return ("cells", sp, path[-1])
        return None


# ----------------------------------------------------------------------------
# contexts and run-time values

class Ctx:
    """A space as seen by formulas: static (an RSpace) or dynamic."""

    def __init__(self, model, base, sid, parent=None, root=None, args=None, extra=None):
        self.model = model
        self.base = base            # RSpace whose members this context shows
        self.sid = sid              # idtuple without the model name
        self.parent = parent        # parent Ctx for dynamic contexts
        self.root = root            # the ItemSpace Ctx at the root of a dynamic tree (None: static)
        self.args = args            # ordered dict of own arguments (ItemSpace only)
        self.extra = extra or {}    # references returned by the parameter formula

    @property
    def dynamic(self):
        return self.root is not None

    def allargs(self):
        """argument maps, innermost first"""
        maps = []
        c = self
        while c is not None and c.dynamic:
            if c.args is not None:
                maps.append(c.args)
            c = c.parent
        return maps

    def __repr__(self):
        return "Ctx%r" % (self.sid,)


def static_ctx(model, space):
    return Ctx(model, space, space.path)


class CellsVal:
    __slots__ = ("ctx", "name")

    def __init__(self, ctx, name):
        self.ctx = ctx
        self.name = name

    def __eq__(self, other):
        return isinstance(other, CellsVal) and other.ctx.sid == self.ctx.sid and other.name == self.name

    def __hash__(self):
        return hash((self.ctx.sid, self.name))

    def ident(self):
        return ("cells", self.ctx.sid, self.name)


class SpaceVal:
    __slots__ = ("ctx",)

    def __init__(self, ctx):
        self.ctx = ctx

    def __eq__(self, other):
        return isinstance(other, SpaceVal) and other.ctx.sid == self.ctx.sid

    def __hash__(self):
        return hash(self.ctx.sid)

    def ident(self):
        return ("space", self.ctx.sid)


class ModelVal:
    def ident(self):
        return ("model",)


class Trace:
    """by-products of reference evaluation"""

    def __init__(self):
        self.calls = {}         # elem -> [callee elems] of one (completed) execution, in order
        self.refreads = {}      # elem -> set of (owner sid | 'model', name, how) of one execution
        self.cached = {}        # elem -> cached flag
        self.failed = {}        # elem -> (calls, refreads) of an execution that raised
        self.failed_seq = {}    # elem -> [(calls, refreads)] of every execution that raised, in order
        self.values = {}        # elem -> value of a completed execution
        self.handled = 0        # exceptions caught by formulas themselves
        self.unwound = []       # elements the escaping exception passed through, innermost first
        self.curline = {}       # elem -> source line being executed (last known), for tracebacks
        self.executed = []      # elems whose formula ran, in completion order
        self.entered = []       # elems in entry order
        self.created = []       # item spaces created (sid)
        self.steps = 0


class Evaluator:

    def __init__(self, model, budget=200000, trace=None, held=None):
        self.held = held        # optional {elem: value}: values served from memory (like a memoising evaluator)
        self.m = model
        self.budget = budget
        self.trace = trace if trace is not None else Trace()
        self.stack = []         # elements being evaluated (cells elems and space elems)

    # -- public --------------------------------------------------------------
    def ctx_of(self, sid, navigate=True):
        """context for an idtuple (strings = names, tuples = ItemSpace arguments).

        navigate=True only addresses the context (fault points in parameter formulas do not fire);
        navigate=False creates the instances as an evaluation would."""
        self._navigating = navigate
        try:
            return self._ctx_of(sid)
        finally:
            self._navigating = False

    def _ctx_of(self, sid):
        ctx = None
        for part in sid:
            if isinstance(part, str):
                if ctx is None:
                    ctx = static_ctx(self.m, self.m.spaces[part])
                elif ctx.dynamic:
                    ctx = self.child_ctx(ctx, part)
                else:
                    ctx = static_ctx(self.m, ctx.base.children[part])
            else:
                ctx = self.item_ctx(ctx, tuple(part))
        return ctx

    def call_cells(self, ctx, name, args=(), kwargs=None):
        found = self.m.find_cells(ctx.base, name)
        if found is None:
            raise AttributeError(name)
        definer, cdef = found
        ba = cdef.signature().bind(*args, **(kwargs or {}))
        ba.apply_defaults()
        key = tuple(ba.arguments.values())
        return self.eval_elem(ctx, name, key, definer, cdef)

    # -- elements -------------------------------------------------------------
    def eval_elem(self, ctx, name, key, definer, cdef):
        elem = (ctx.sid, name, key)
        if cdef.cached:
            hash(key)
            inp = self.m.inputs.get((ctx.sid, name))
            if inp is not None and key in inp:
                self._note_call(elem)
                return inp[key]
            if self.held is not None and elem in self.held:
                self._note_call(elem)
                return self.held[elem]
            if self.m.maxdepth is not None and elem in self.trace.values and elem in self.trace.executed:
                # under a recursion limit the depth of a chain depends on what was already computed during this
                # evaluation: an element completed earlier is served without a new frame
                self._note_call(elem)
                return self.trace.values[elem]
        if self.m.maxdepth is not None and len(self.stack) > self.m.maxdepth:
            raise DeepReferenceError("depth")       # the call never starts: nothing is recorded for it
        self._note_call(elem)
        rec = self._push(elem)
        self.trace.cached[elem] = cdef.cached
        try:
            env = {p: v for (p, _), v in zip(cdef.params, key)}
            self.trace.entered.append(elem)
            if cdef.terms is not None and cdef.form == "deflines":
                from .expr import term_lines
                tl = term_lines(cdef.as_dict())
                vals = []
                guards = cdef.guards or []
                for j, t in enumerate(cdef.terms):
                    self.trace.curline[elem] = tl[j]
                    g = guards[j] if j < len(guards) else 0
                    if isinstance(g, list):
                        # try: a = t / finally: _ = g[1]   (the clean-up runs on both paths; a failure inside it
                        # replaces the one that was passing)
                        s0 = len(self.trace.unwound)
                        failed_before = True
                        try:
                            vals.append(self.ev(t, ctx, env))
                            failed_before = False
                        finally:
                            s1 = len(self.trace.unwound)
                            self.trace.curline[elem] = tl[j] + 2
                            try:
                                self.ev(g[1], ctx, env)
                            except BaseException as exc2:
                                if failed_before and not isinstance(exc2, Budget):
                                    del self.trace.unwound[s0:s1]
                                raise
                            self.trace.curline[elem] = tl[j]
                    else:
                        vals.append(self.ev(t, ctx, env))
                self.trace.curline[elem] = tl[-1]       # the return line adds them up
                value = vals[0] if vals else 0
                for v in vals[1:]:
                    value = value + v
            else:
                self.trace.curline[elem] = 1 if cdef.form == "lambda" else (
                    2 + (1 if cdef.doc else 0) + (1 if cdef.tick else 0))
                value = self.ev(cdef.expr, ctx, env)
            if value is None:       # (cached or not: see KF-C09-1)
                if not self.m.effective_allow_none(ctx.base, cdef, definer, ctx.dynamic):
                    raise NoneReturnedError(repr(elem))
            self.trace.executed.append(elem)
            self.trace.calls[elem] = rec[1]
            self.trace.refreads[elem] = rec[2]
            self.trace.cached[elem] = cdef.cached
            self.trace.values[elem] = value
            return value
        except BaseException as exc:
            if not isinstance(exc, Budget):
                self.trace.failed.setdefault(elem, (rec[1], rec[2]))
                self.trace.failed_seq.setdefault(elem, []).append((rec[1], rec[2]))
                self.trace.unwound.append(elem)
            raise
        finally:
            self.stack.pop()

    def _push(self, elem):
        if self.m.maxdepth is not None and len(self.stack) > self.m.maxdepth:
            raise DeepReferenceError("depth")
        rec = (elem, [], set())
        self.stack.append(rec)
        return rec

    def _note_call(self, elem):
        if self.stack:
            self.stack[-1][1].append(elem)

    def _note_ref(self, owner, name, how):
        if self.stack:
            self.stack[-1][2].add((owner, name, how))

    # -- item spaces ----------------------------------------------------------
    def get_item(self, pctx, args=(), kwargs=None):
        f = pctx.base.formula
        if f is None:
            raise AttributeError("space has no parameters")   # (observed: modelx raises AttributeError on None.signature)
        ba = make_sig(f["params"]).bind(*args, **(kwargs or {}))
        ba.apply_defaults()
        key = tuple(ba.arguments.values())
        hash(key)
        return self.item_ctx(pctx, key)

    def item_ctx(self, pctx, key):
        f = pctx.base.formula
        elem = (pctx.sid, None, key)
        self._note_call(elem)
        rec = self._push(elem)
        self.trace.cached[elem] = True
        try:
            argmap = {p: v for (p, _), v in zip(f["params"], key)}
            if f.get("failtag") and not getattr(self, "_navigating", False) \
                    and not (self.held is not None and elem in self.held):
                # (an instance that already exists is served from memory: its formula does not run again)
                kind = self.m.armed.get(f["failtag"] + str(key[0]))
                if kind and kind != "None":
                    raise FAULT_KINDS[kind]("armed parameter formula")
            ret = f.get("ret")
            base = pctx.base
            extra = {}
            if ret is not None:
                env = dict(argmap)
                if ret.get("base") is not None:
                    bv = self.ev(ret["base"], pctx, env)
                    if not isinstance(bv, SpaceVal):
                        raise ValueError("base must be a Space")
                    base = bv.ctx.base
                for n, e in (ret.get("refs") or {}).items():
                    extra[n] = self.ev(e, pctx, env)
            sid = pctx.sid + (key,)
            ctx = Ctx(self.m, base, sid, parent=pctx, root=None, args=argmap, extra=extra)
            ctx.root = ctx
            self.trace.created.append(sid)
            self.trace.calls[elem] = rec[1]
            self.trace.refreads[elem] = rec[2]
            self.trace.cached[elem] = True
            return ctx
        except BaseException as exc:
            if not isinstance(exc, Budget):
                self.trace.failed.setdefault(elem, (rec[1], rec[2]))
                self.trace.failed_seq.setdefault(elem, []).append((rec[1], rec[2]))
                self.trace.unwound.append(elem)
                self.trace.curline[elem] = 1 if f.get("form", "lambda") == "lambda" else 2
            raise
        finally:
            self.stack.pop()

    def child_ctx(self, pctx, name):
        """dynamic child space ``name`` of dynamic context ``pctx``"""
        base = pctx.base.children[name]
        return Ctx(self.m, base, pctx.sid + (name,), parent=pctx, root=pctx.root)

    # -- name resolution ------------------------------------------------------
    def lookup(self, ctx, name, how):
        m = self.m
        # 1. cells
        if m.find_cells(ctx.base, name) is not None:
            return CellsVal(ctx, name)
        # 2. references
        if ctx.dynamic:
            for amap in ctx.allargs():
                if name in amap:
                    self._note_ref(ctx.sid, name, how)
                    return amap[name]
            if name in ctx.extra:
                self._note_ref(ctx.sid, name, how)
                return ctx.extra[name]
        if name in ("_self", "_space"):
            return SpaceVal(ctx)
        if name == "_model":
            return ModelVal()
        found = m.find_ref(ctx.base, name)
        if found is not None:
            definer, ref = found
            self._note_ref(ctx.base.path if not ctx.dynamic else ctx.sid, name, how)
            return self.bind_ref(ctx, definer, ref)
        if name in m.refs:
            self._note_ref("model", name, how)
            return self.model_value(m.refs[name])
        # 3. child spaces
        if name in ctx.base.children:
            if ctx.dynamic:
                return SpaceVal(self.child_ctx(ctx, name))
            return SpaceVal(static_ctx(m, ctx.base.children[name]))
        return _MISSING

    def model_value(self, v):
        if isinstance(v, Obj):
            return self.obj_value(v.path)
        return v

    def obj_value(self, path):
        r = self.m.resolve_obj(path)
        if r is None:
            raise LookupError("dangling object reference %r" % (path,))
        if r[0] == "space":
            return SpaceVal(static_ctx(self.m, r[1]))
        return CellsVal(static_ctx(self.m, r[1]), r[2])

    def bind_ref(self, ctx, definer, ref):
        """value of reference ``ref`` (defined in ``definer``) as seen from ``ctx``"""
        v = ref.value
        if not isinstance(v, Obj):
            return v
        path = v.path
        mode = ref.mode
        # static derivation: definer itself or one of its cells -> deriving space
        if mode != "absolute" and ctx.base is not definer:
            dp = definer.path
            if path == dp:
                path = ctx.base.path
            elif path[:-1] == dp and self.m.find_cells(definer, path[-1]) is not None \
                    and not self.m.has_space(path):
                path = ctx.base.path + (path[-1],)
        if ctx.dynamic and mode != "absolute":
            rootbase = ctx.root.base.path
            if path[:len(rootbase)] == rootbase:
                rel = path[len(rootbase):]
                return self.dyn_obj(ctx.root, rel)
        return self.obj_value(path)

    def dyn_obj(self, root, rel):
        ctx = root
        for i, n in enumerate(rel):
            if n in ctx.base.children:
                ctx = self.child_ctx(ctx, n)
            elif i == len(rel) - 1 and self.m.find_cells(ctx.base, n) is not None:
                return CellsVal(ctx, n)
            else:
                raise LookupError("no dynamic counterpart for %r" % (rel,))
        return SpaceVal(ctx)

    # -- expressions ----------------------------------------------------------
    def ev(self, e, ctx, env):
        self.trace.steps += 1
        if self.trace.steps > self.budget:
            raise Budget()
        k = e[0]
        if k == "lit":
            return e[1]
        if k == "none":
            return None
        if k == "var":
            return env[e[1]]
        if k == "name":
            n = e[1]
            if n in env:
                return env[n]
            v = self.lookup(ctx, n, "name")
            if v is _MISSING:
                if hasattr(_builtins, n):
                    return getattr(_builtins, n)
                raise NameError(n)
            return v
        if k == "attr":
            o = self.ev(e[1], ctx, env)
            return self.getattr(o, e[2])
        if k == "value":
            o = self.ev(e[1], ctx, env)
            if isinstance(o, CellsVal):
                found = self.m.find_cells(o.ctx.base, o.name)
                if found[1].params:
                    raise ValueError("not a scalar")
                return self.call_cells(o.ctx, o.name, ())
            raise AttributeError("value")
        if k == "call":
            f = self.ev(e[1], ctx, env)
            args = [self.ev(a, ctx, env) for a in e[2]]
            if e[3] == "[]":
                if len(args) == 1 and isinstance(args[0], tuple):
                    args = list(args[0])
            return self.apply(f, args, {})
        if k == "matchv":
            # Cells.match: the entries whose key agrees with the arguments where it is not None are probed from the
            # most to the least specific one; the first value that is not None is the answer
            import itertools
            f = self.ev(e[1], ctx, env)
            args = [self.ev(a, ctx, env) for a in e[2]]
            n = len(args)
            for ml in range(n, -1, -1):
                for idxs in itertools.combinations(range(n), ml):
                    masked = [None] * n
                    for i in idxs:
                        masked[i] = args[i]
                    v = self.apply(f, masked, {})
                    if v is not None:
                        return v
            return None         # (no entry matches: the pair that match() returns then has the value None)
        if k == "kwcall":
            f = self.ev(e[1], ctx, env)
            kw = {n: self.ev(a, ctx, env) for n, a in e[2]}
            return self.apply(f, [], kw)
        if k == "bin":
            return BINOPS[e[1]](self.ev(e[2], ctx, env), self.ev(e[3], ctx, env))
        if k == "mod":
            return self.ev(e[1], ctx, env) % e[2]
        if k == "ifgt":
            if self.ev(e[1], ctx, env) > e[2]:
                return self.ev(e[3], ctx, env)
            return self.ev(e[4], ctx, env)
        if k == "lst":
            # sum([body for v in range(k)]): the list is built completely before anything is added up
            vals = []
            for i in range(e[2]):
                env2 = dict(env)
                env2[e[1]] = i
                vals.append(self.ev(e[3], ctx, env2))
            tot = 0
            for v in vals:
                tot = tot + v
            return tot
        if k == "sum":
            tot = 0
            for i in range(e[2]):
                env2 = dict(env)
                env2[e[1]] = i
                tot = tot + self.ev(e[3], ctx, env2)
            return tot
        if k == "lam":
            a = self.ev(e[3], ctx, env)
            env2 = dict(env)
            env2[e[1]] = a
            return self.ev(e[2], ctx, env2)
        if k == "thennone":
            self.ev(e[1], ctx, env)
            return None
        if k == "isnone":
            return 1 if self.ev(e[1], ctx, env) is None else 0
        if k == "fail":
            kind = self.m.armed.get(e[1])
            if kind and kind != "None":
                raise FAULT_KINDS[kind]("armed " + e[1])
            return 0
        if k == "try":
            mark = len(self.trace.unwound)
            try:
                return self.ev(e[1], ctx, env)
            except Budget:
                raise
            except Exception:
                self.trace.handled += 1
                # that failure was handled: it is not the escaping chain (entries of a failure that is still
                # passing - we may be inside a finally block - stay)
                del self.trace.unwound[mark:]
                return self.ev(e[2], ctx, env)
        if k == "failx":
            tag = e[1] + (str(env[e[2]]) if e[2] else "")
            kind = self.m.armed.get(tag)
            if kind and kind != "None":
                raise FAULT_KINDS[kind]("armed " + tag)
            return 0
        if k == "failnone":
            kind = self.m.armed.get(e[1])
            if kind == "None":
                return None
            if kind:
                raise FAULT_KINDS[kind]("armed " + e[1])
            return self.ev(e[2], ctx, env)
        raise ValueError("bad expr %r" % (e,))

    def getattr(self, o, name):
        if isinstance(o, SpaceVal):
            v = self.lookup(o.ctx, name, "attr")
            if v is _MISSING:
                raise AttributeError(name)
            return v
        if isinstance(o, ModelVal):
            if name in self.m.spaces:
                return SpaceVal(static_ctx(self.m, self.m.spaces[name]))
            if name in self.m.refs:
                self._note_ref("model", name, "attr")
                return self.model_value(self.m.refs[name])
            raise AttributeError(name)
        return getattr(o, name)

    def apply(self, f, args, kw):
        if isinstance(f, CellsVal):
            return self.call_cells(f.ctx, f.name, args, kw)
        if isinstance(f, SpaceVal):
            return SpaceVal(self.get_item(f.ctx, args, kw))
        if isinstance(f, (ModelVal,)):
            raise TypeError("not callable")
        return f(*args, **kw)


_MISSING = object()


# ----------------------------------------------------------------------------
# convenience

def evaluate(model, sid, name, args=(), kwargs=None, budget=200000, held=None):
    """Evaluate cells ``name`` of the space identified by ``sid``.

    Returns ("ok", value, trace) or ("err", exception type name, trace).
    Raises Budget if the evaluation is too large.
    """
    ev = Evaluator(model, budget=budget, held=held)
    try:
        ctx = ev.ctx_of(sid, navigate=False)
        v = ev.call_cells(ctx, name, args, kwargs)
        return ("ok", plain(v), ev.trace)
    except Budget:
        raise
    except RecursionError:
        raise Budget()
    except (Exception, HarnessAbort) as exc:      # an outcome, compared by type name
        return ("err", type(exc).__name__, ev.trace)


def plain(v):
    """comparable form of run-time values"""
    if isinstance(v, (CellsVal, SpaceVal, ModelVal)):
        return ("obj",) + v.ident()
    if isinstance(v, tuple) and hasattr(v, "_fields"):
        return type(v)(*[plain(x) for x in v])
    if isinstance(v, (list, tuple)):
        return type(v)(plain(x) for x in v)
    return v
