"""Canonical, JSON-able *public description* of a live model, using public API only.

Used by C04 (round trip), C11 (rejected edits change nothing), C13, C19.
Object-valued references are described by the path of their target relative to
the model, so that two models can be compared.
"""

import math
import types

import modelx as mx
from modelx.core.base import Interface
from modelx.core.cells import Cells
from modelx.core.model import Model
from modelx.core.space import BaseSpace


def hidden(n):
    return n.startswith("_")


def value_desc(v, model):
    if isinstance(v, Interface):
        if not v._is_valid():
            return ["obj", "<deleted>"]
        idt = v._idtuple
        same = v.model is model
        kind = "cells" if isinstance(v, Cells) else ("model" if isinstance(v, Model) else "space")
        return ["obj", kind, "same" if same else idt[0], [_j(x) for x in idt[1:]]]
    try:
        from modelx.core.node import BaseNode
        if isinstance(v, BaseNode):
            return ["node", value_desc(v.obj, model), [value_desc(a, model) for a in getattr(v, "args", ())]]
    except ImportError:
        pass
    if isinstance(v, types.ModuleType):
        return ["module", v.__name__]
    if isinstance(v, types.FunctionType):
        return ["function", v.__module__, v.__qualname__]
    if isinstance(v, float):
        if math.isnan(v):
            return ["float", "nan"]
        return ["float", repr(v)]
    if isinstance(v, bool) or v is None or isinstance(v, (int, str)):
        return [type(v).__name__, v]
    if isinstance(v, (list, tuple)):
        return [type(v).__name__, [value_desc(x, model) for x in v]]
    if isinstance(v, dict):
        return ["dict", sorted(([value_desc(k, model), value_desc(x, model)] for k, x in v.items()), key=repr)]
    try:
        import pandas as pd
        if isinstance(v, pd.DataFrame):
            return ["DataFrame", [str(c) for c in v.columns], [[value_desc(_py(x), model) for x in row]
                                                               for row in v.itertuples(index=True)]]
        if isinstance(v, pd.Series):
            return ["Series", str(v.name), [[value_desc(_py(i), model), value_desc(_py(x), model)]
                                            for i, x in v.items()]]
    except ImportError:
        pass
    return ["other", type(v).__name__, repr(v)[:200]]


def _py(x):
    try:
        import numpy as np
        if isinstance(x, np.generic):
            return x.item()
    except ImportError:
        pass
    return x


def _j(x):
    if isinstance(x, tuple):
        return [_j(i) for i in x]
    return x


def cells_desc(c, model):
    impl = c._impl
    inputs = sorted(([value_desc(k, model), value_desc(impl.data[k], model)] for k in impl.input_keys), key=repr)
    return {
        "source": c.formula.source if c.formula is not None else None,
        "parameters": list(c.parameters),
        "allow_none": c.allow_none,
        "is_cached": c.is_cached,
        "doc": c.doc,
        "derived": c._is_derived(),
        "inputs": inputs,
    }


def ref_desc(space_or_model, name, model):
    proxy = mx.get_object(space_or_model.fullname + "." + name, as_proxy=True)
    d = {"value": value_desc(proxy.value, model), "refmode": proxy.refmode}
    try:
        d["derived"] = bool(proxy.is_derived())
    except Exception:
        d["derived"] = None
    return d


def item_inputs(space, model):
    """inputs held inside (nested) ItemSpaces of ``space``"""
    out = []

    def rec(sp):
        for n, c in sp.cells.items():
            for k in c._impl.input_keys:
                out.append([[_j(x) for x in sp._idtuple[1:]], n, value_desc(k, model), value_desc(c._impl.data[k], model)])
        for ch in sp.spaces.values():
            rec(ch)
        for it in sp.itemspaces.values():
            rec(it)
    for it in space.itemspaces.values():
        rec(it)
    return sorted(out, key=repr)


def space_desc(s, model, with_derived=True):
    d = {
        "doc": s.doc,
        "allow_none": s.allow_none,
        "formula": s.formula.source if s.formula is not None else None,
        "parameters": list(s.parameters) if s.parameters is not None else None,
        "direct_bases": [b.fullname.split(".", 1)[1] for b in s._direct_bases],
        "bases": [b.fullname.split(".", 1)[1] for b in s.bases],
        "cells": {},
        "refs": {},
        "spaces": {},
        "item_inputs": item_inputs(s, model),
    }
    for n, c in s.cells.items():
        if with_derived or not c._is_derived():
            d["cells"][n] = cells_desc(c, model)
    for n in s._own_refs:
        if hidden(n):
            continue
        rd = ref_desc(s, n, model)
        if with_derived or not rd["derived"]:
            d["refs"][n] = rd
    for n, ch in s.spaces.items():
        d["spaces"][n] = space_desc(ch, model, with_derived)
    return d


def model_desc(m, with_name=False, with_derived=True):
    d = {
        "doc": m.doc,
        "allow_none": m.allow_none,
        "refs": {},
        "spaces": {},
    }
    try:
        d["iospecs"] = sorted([type(s).__name__, str(s.path), getattr(s, "_sheet", None)] for s in m.iospecs)
    except Exception as exc:
        d["iospecs"] = "error: %r" % (exc,)
    if with_name:
        d["name"] = m.name
    for n in m.refs:
        if hidden(n):
            continue
        proxy = mx.get_object(m.fullname + "." + n, as_proxy=True)
        d["refs"][n] = {"value": value_desc(proxy.value, m), "refmode": proxy.refmode}
    for n, s in m.spaces.items():
        d["spaces"][n] = space_desc(s, m, with_derived)
    return d


def diff(a, b, path=""):
    """first difference between two descriptions (or None)"""
    if type(a) != type(b):
        return "%s: %r vs %r" % (path, a, b)
    if isinstance(a, dict):
        for k in sorted(set(a) | set(b), key=repr):
            if k not in a:
                return "%s.%s: missing vs %r" % (path, k, _short(b[k]))
            if k not in b:
                return "%s.%s: %r vs missing" % (path, k, _short(a[k]))
            r = diff(a[k], b[k], path + "." + str(k))
            if r:
                return r
        return None
    if isinstance(a, list):
        if len(a) != len(b):
            return "%s: %r vs %r" % (path, _short(a), _short(b))
        for i, (x, y) in enumerate(zip(a, b)):
            r = diff(x, y, "%s[%d]" % (path, i))
            if r:
                return r
        return None
    if a != b:
        return "%s: %r vs %r" % (path, a, b)
    return None


def _short(x):
    s = repr(x)
    return s if len(s) < 160 else s[:160] + "..."
