"""Apply *cases* (plain data) to real modelx and to the reference model.

An operation is a JSON list (see OPS below).  ``Real`` executes it against the
live library, ``apply_ref`` against ``vf.ref.RModel``.  Edits are applied to
the reference only when the real model accepted them (accept-follows-real).
"""

import gc
import sys
import warnings

import modelx as mx
from modelx.core.errors import FormulaError, DeletedObjectError

from . import ref as R
from .expr import cells_source, params_src, render

warnings.filterwarnings("ignore")

# ----------------------------------------------------------------------------
# harness functions reachable from formulas through model-level references

TICKS = []
ARMED = {}


def _t(space, name, args):
    TICKS.append((space._idtuple[1:], name, tuple(args)))
    return 0


class HarnessError(Exception):
    pass


class HarnessAbort(BaseException):
    pass


class HarnessTimeout(Exception):
    pass


def _try(thunk, alt):
    try:
        return thunk()
    except Exception:
        return alt()


_KINDS = {
    "ZeroDivisionError": ZeroDivisionError,
    "KeyError": KeyError,
    "ValueError": ValueError,
    "HarnessError": HarnessError,
    "HarnessAbort": HarnessAbort,
}


SHARED = [ValueError("one exception instance raised again and again")]


def _raise(kind, tag):
    if kind == "SharedValueError":
        raise SHARED[0]         # the same exception object every time (its traceback accumulates)
    raise _KINDS[kind]("armed " + tag)


def _fail(tag):
    kind = ARMED.get(tag)
    if kind and kind != "None":
        _raise(kind, tag)
    return 0


def _failn(tag):
    kind = ARMED.get(tag)
    if kind == "None":
        return 1            # the formula turns this into a None result
    if kind:
        _raise(kind, tag)
    return 0


def take_ticks():
    out = list(TICKS)
    del TICKS[:]
    return out


# ----------------------------------------------------------------------------
# session hygiene

def reset_session():
    sysm = mx.core.mxsys
    for m in list(mx.get_models().values()):
        try:
            m.close()
        except Exception:
            pass
    sysm._models.clear()
    sysm.currentmodel = None
    mx.set_recalc(False)
    mx.use_formula_error(True)
    mx.handle_formula_error(False)
    ex = sysm.executor
    try:
        if sysm._is_stacktrace_active():
            ex.callstack.clear()
            sysm.stop_stacktrace()
    except Exception:
        pass
    cs = ex.callstack
    cs.clear()
    cs.idxstack.clear()
    cs.counter = 0
    ex.refstack.clear()
    ex.rolledback.clear()
    ex.is_executing = False
    sysm.serializing = None
    mx.set_recursion(400)
    ARMED.clear()
    SHARED[0] = ValueError("one exception instance raised again and again")
    del TICKS[:]
    try:
        sysm._modelnamer.__init__("Model")
        sysm._backupnamer.__init__("_BAK")
    except Exception:
        pass


import collections as _collections
Pt = _collections.namedtuple("Pt", "a b")       # an argument value that is an instance of a tuple subclass


def tup(x):
    """JSON lists -> tuples (recursively) for ids and keys; {"nt": [a, b]} -> Pt(a, b)"""
    if isinstance(x, list):
        return tuple(tup(i) for i in x)
    if isinstance(x, dict) and set(x) == {"nt"}:
        return Pt(*[tup(i) for i in x["nt"]])
    return x


def untup(x):
    if isinstance(x, Pt):
        return {"nt": [untup(i) for i in x]}
    if isinstance(x, tuple):
        return [untup(i) for i in x]
    if isinstance(x, list):
        return [untup(i) for i in x]
    if isinstance(x, dict):
        return {k: untup(v) for k, v in x.items()}
    return x


def errname(exc):
    return type(exc).__name__


# ----------------------------------------------------------------------------
# formula sources

def space_formula_source(f):
    """source of a parameter formula spec"""
    ps = params_src(f["params"])
    ret = f.get("ret")
    if ret is None:
        body = "None"
    else:
        parts = []
        if ret.get("base") is not None:
            parts.append("'base': %s" % render(ret["base"]))
        if ret.get("refs"):
            parts.append("'refs': {%s}" % ", ".join(
                "%r: %s" % (n, render(e)) for n, e in ret["refs"].items()))
        body = "{%s}" % ", ".join(parts)
    if f.get("failtag"):
        # a fault point inside the parameter formula (one tag per instance)
        body = "(_fail(%r + str(%s)), %s)[1]" % (f["failtag"], f["params"][0][0], body)
    if f.get("form", "lambda") == "def":
        return "def _formula(%s):\n    return %s\n" % (ps, body)
    return "lambda %s: %s" % (ps, body)


# ----------------------------------------------------------------------------
# the real side

_TWO_A, _TWO_B = (lambda x: x + 1), (lambda x: x + 2)    # two lambdas on one source line: cannot be captured


_NOSRC = {}
exec("def f(x):\n    return x + 1\n", _NOSRC)       # a function whose source cannot be retrieved


def raw_formula(f):
    """formula argument of a raw operation: text (or any JSON value) as is, {"obj": tag} -> a function object
    that cannot be turned into a formula"""
    if isinstance(f, dict) and set(f) == {"obj"}:
        return {"two_lambdas": _TWO_B, "builtin": len, "partial": __import__("functools").partial(max, 1),
                "no_source": _NOSRC["f"]}[f["obj"]]
    return f


class Real:
    """A live modelx model driven by operations."""

    @classmethod
    def wrap(cls, model):
        self = cls.__new__(cls)
        self.m = model
        self.hooks = False
        return self

    def __init__(self, name="M", hooks=True):
        self.m = mx.new_model(name)
        self.hooks = hooks
        if hooks:
            self.m._t = _t          # names starting with '_' are hidden from listings
            self.m._fail = _fail
            self.m._failn = _failn
            self.m._try = _try

    # -- object lookup ---------------------------------------------------------
    def space(self, path):
        o = self.m
        for n in path:
            o = o.spaces[n]
        return o

    def ctx(self, sid):
        """object for an idtuple; tuples index ItemSpaces (creating them)"""
        o = self.m
        for part in sid:
            if isinstance(part, dict):
                # explicit spelling: {"a": positional args, "k": keyword args, "sub": use [] instead of ()}
                if part.get("sub"):
                    a = tuple(part.get("a", ()))
                    o = o[a[0]] if len(a) == 1 else o[a]
                else:
                    o = o(*part.get("a", ()), **part.get("k", {}))
            elif isinstance(part, (tuple, list)):
                o = o[tuple(part)]
            else:
                o = o.spaces[part] if o is self.m or part in o.spaces else getattr(o, part)
        return o

    def value(self, vs):
        if vs[0] == "v":
            return vs[1]
        if vs[0] == "t":
            return tup(vs[1])
        if vs[0] == "o":
            return self.obj(vs[1])
        if vs[0] == "py":
            return py_value(vs[1])
        raise ValueError(vs)

    def obj(self, path):
        o = self.m
        for n in path:
            if o is self.m:
                o = o.spaces[n]
            elif n in o.spaces:
                o = o.spaces[n]
            else:
                o = o.cells[n]
        return o

    # -- operations ------------------------------------------------------------
    def apply(self, op):
        """Execute one operation.  Returns ("ok", value) | ("rej"/"err", exception type name)."""
        k = op[0]
        try:
            return ("ok", getattr(self, "op_" + k)(*op[1:]))
        except FormulaError:
            return ("err", errname(mx.get_error()))
        except KeyboardInterrupt:
            raise
        except BaseException as exc:
            return ("err", errname(exc))

    def op_new_space(self, parent, name, bases=None, formula=None):
        p = self.space(parent)
        kw = {}
        if bases:
            kw["bases"] = [self.space(b) for b in bases]
        if formula is not None:
            kw["formula"] = space_formula_source(formula)
        p.new_space(name, **kw)

    def op_del_space(self, path):
        p = self.space(path[:-1])
        if path[-1] not in p.spaces:
            raise KeyError(path[-1])
        delattr(p, path[-1])

    def op_rename_space(self, path, new):
        self.space(path).rename(new)

    def op_add_bases(self, path, bases):
        self.space(path).add_bases(*[self.space(b) for b in bases])

    def op_remove_bases(self, path, bases):
        self.space(path).remove_bases(*[self.space(b) for b in bases])

    def op_set_formula(self, path, formula):
        s = self.space(path)
        if formula is None:
            del s.formula
        else:
            s.formula = space_formula_source(formula)

    def op_new_cells(self, path, c):
        s = self.space(path)
        cells = s.new_cells(c["name"], cells_source(c), is_cached=c.get("cached", True))
        if c.get("allow_none") is not None:
            cells.allow_none = c["allow_none"]

    def op_set_cells_formula(self, path, name, c):
        self.space(path).cells[name].formula = cells_source(dict(c, name=name))

    def op_del_cells(self, path, name):
        s = self.space(path)
        if name not in s.cells:
            raise KeyError(name)
        delattr(s, name)

    def op_new_pandas(self, path, name, file, kind="df"):
        import pandas as pd
        if kind == "df":
            v = pd.DataFrame({"a": [1, 2], "b": [1.5, 2.5]}, index=pd.Index([10, 20], name="k"))
        else:
            v = pd.Series([3, 6, 7], index=pd.Index([1, 2, 3], name="k"), name="ser")
        o = self.space(path) if path else self.m
        o.new_pandas(name, file, v, file_type="excel" if file.endswith("xlsx") else "csv")

    def op_copy_cells(self, src, name, dst, new):
        self.space(src).cells[name].copy(self.space(dst), new)

    def op_copy_space(self, src, dstparent, new):
        import signal

        def alarm(*a):
            raise HarnessTimeout("copy did not return within 3 s")
        old = signal.signal(signal.SIGALRM, alarm)
        signal.alarm(3)         # (copying a space into its own tree must be refused, not run for ever)
        try:
            self.space(src).copy(self.space(dstparent) if dstparent else self.m, new)
        finally:
            signal.alarm(0)
            signal.signal(signal.SIGALRM, old)

    def op_rename_cells(self, path, name, new):
        self.space(path).cells[name].rename(new)

    def op_set_cached(self, path, name, flag):
        self.space(path).cells[name].is_cached = flag

    def op_set_allow_none(self, path, name, value):
        o = self.space(path) if path else self.m
        if name is not None:
            o = o.cells[name]
        o.allow_none = value

    # -- raw operations (arguments passed through as they are; used for invalid requests) ---------
    def op_new_space_raw(self, parent, name, bases=None, formula=None, refs=None):
        p = self.space(parent)
        kw = {}
        if bases:
            kw["bases"] = [self.space(b) for b in bases]
        if formula is not None:
            kw["formula"] = formula
        if refs is not None:
            kw["refs"] = dict(refs)
        p.new_space(name, **kw)

    def op_new_cells_raw(self, path, name, formula):
        self.space(path).new_cells(name, raw_formula(formula))

    def op_set_formula_raw(self, path, text):
        self.space(path).formula = raw_formula(text)

    def op_set_cells_formula_raw(self, path, name, text):
        self.space(path).cells[name].formula = raw_formula(text)

    def op_set_value_raw(self, sid, name, keysrc, valuesrc):
        c = self.ctx(tup(sid)).cells[name]
        c.__setitem__(py_value(keysrc), py_value(valuesrc))

    def op_del_member(self, path, name):
        o = self.space(path) if path else self.m
        delattr(o, name)

    def op_rename_model(self, name):
        self.m.rename(name)

    def op_set_ref_raw(self, path, name, valuesrc, mode):
        o = self.space(path) if path else self.m
        if mode is None:
            setattr(o, name, py_value(valuesrc))
        else:
            o.set_ref(name, py_value(valuesrc), mode)

    def op_set_doc(self, path, name, text):
        o = self.space(path) if path else self.m
        if name is not None:
            o = o.cells[name]
        o.doc = text

    def op_set_ref(self, path, name, vs, mode=None):
        o = self.space(path) if path else self.m
        v = self.value(vs)
        if mode is None or not path:
            setattr(o, name, v)
        else:
            o.set_ref(name, v, mode)

    def op_del_ref(self, path, name):
        o = self.space(path) if path else self.m
        refs = o._own_refs if path else o.refs
        if name not in refs:
            raise KeyError(name)
        delattr(o, name)

    def op_set_value(self, sid, name, key, value, spelling=None):
        sp = self.ctx(tup(sid))
        c = sp.cells[name]
        key = tup(key)
        if spelling == "attr" and key == ():
            setattr(sp, name, value)        # ``space.name = value`` assigns a cells without parameters
        else:
            c[key] = value

    def op_clear_at(self, sid, name, key):
        self.ctx(tup(sid)).cells[name].clear_at(*tup(key))

    def op_clear(self, sid, name):
        self.ctx(tup(sid)).cells[name].clear()

    def op_clear_all(self, sid, name):
        self.ctx(tup(sid)).cells[name].clear_all()

    def op_clear_all_space(self, path):
        self.space(path).clear_all()

    def op_clear_all_model(self):
        self.m.clear_all()

    def op_del_item(self, path, key):
        del self.space(path)[tup(key)]

    def op_clear_items(self, path):
        self.space(path).clear_items()

    def op_eval(self, sid, name, args, kwargs=None, style="()"):
        c = self.ctx(tup(sid)).cells[name]
        args = tup(args)
        if style == "[]":
            if len(args) == 1:
                return c[args[0]]
            return c[args]
        if style == "value":
            return c.value
        return c(*args, **(kwargs or {}))

    def op_arm(self, tag, kind):
        if kind:
            ARMED[tag] = kind
        else:
            ARMED.pop(tag, None)

    def op_recalc(self, flag):
        mx.set_recalc(flag)

    def op_set_recursion(self, n):
        mx.set_recursion(n)

    # -- observation -------------------------------------------------------------
    def held(self):
        """{(sid, cellsname): {key: value}} over static spaces and existing ItemSpaces"""
        out = {}

        def rec(sp):
            sid = sp._idtuple[1:]
            for n, c in sp.cells.items():
                d = dict(c._impl.data)
                if d:
                    out[(sid, n)] = d
            for ch in sp.spaces.values():
                rec(ch)
            for it in sp.itemspaces.values():
                rec(it)
        for s in self.m.spaces.values():
            rec(s)
        return out

    def input_keys(self):
        out = {}

        def rec(sp):
            sid = sp._idtuple[1:]
            for n, c in sp.cells.items():
                ks = set(c._impl.input_keys)
                if ks:
                    out[(sid, n)] = ks
            for ch in sp.spaces.values():
                rec(ch)
            for it in sp.itemspaces.values():
                rec(it)
        for s in self.m.spaces.values():
            rec(s)
        return out

    def all_static_spaces(self):
        out = []

        def rec(sp):
            out.append(sp)
            for ch in sp.spaces.values():
                rec(ch)
        for s in self.m.spaces.values():
            rec(s)
        return out


def plain_real(v):
    """comparable form of a value returned by modelx (objects -> tagged idtuples)"""
    from modelx.core.cells import Cells
    from modelx.core.space import BaseSpace
    from modelx.core.model import Model
    if isinstance(v, Cells):
        return ("obj", "cells", v.parent._idtuple[1:], v.name)
    if isinstance(v, BaseSpace):
        return ("obj", "space", v._idtuple[1:])
    if isinstance(v, Model):
        return ("obj", "model")
    if isinstance(v, tuple) and hasattr(v, "_fields"):
        return type(v)(*[plain_real(x) for x in v])
    if isinstance(v, (list, tuple)):
        return type(v)(plain_real(x) for x in v)
    return v


# ----------------------------------------------------------------------------
# the reference side

def py_value(src):
    """value of a (harness-generated) Python expression: floats like nan/inf, containers, modules"""
    import math
    import collections
    import fractions
    import decimal
    import datetime
    import http
    import numpy
    return eval(src, {"math": math, "collections": collections, "fractions": fractions, "http": http, "numpy": numpy,
                      "decimal": decimal, "datetime": datetime, "float": float, "__builtins__": __builtins__})


def ref_value(vs):
    if vs[0] == "py":
        return py_value(vs[1])
    if vs[0] == "v":
        return vs[1]
    if vs[0] == "t":
        return tup(vs[1])
    if vs[0] == "o":
        return R.Obj(vs[1])
    raise ValueError(vs)


def mk_rcells(c):
    rc = R.RCells(c["name"], c["params"], c["expr"], c.get("cached", True),
                  c.get("allow_none"), c.get("form", "lambda"), c.get("doc"), c.get("tick", True))
    rc.terms = c.get("terms")
    rc.guards = c.get("guards")
    return rc


def _drop_inputs(rm, pred):
    for k in [k for k in rm.inputs if pred(k)]:
        del rm.inputs[k]


def _static_prefix(sid):
    out = []
    for p in sid:
        if not isinstance(p, str):
            break
        out.append(p)
    return tuple(out)


def _copy_cells(rm, source, name, target, new):
    """Cells.copy: the effective definition and the assigned values; the copy is a plain (cached) cells"""
    c = rm.find_cells(source, name)[1].copy()
    c.name = new
    c.cached = True
    c.allow_none = None
    target.cells[new] = c
    ins = rm.inputs.get((source.path, name))
    if ins:
        rm.inputs[(target.path, new)] = dict(ins)


def _copy_space(rm, source, parent, new):
    """UserSpace.copy: parameter formula, doc, all references as the source sees them (they become defined, auto
    mode), the cells DEFINED in the source with their inputs, child spaces recursively; no bases"""
    import copy as _copy
    t = R.RSpace(new, parent)
    if parent is None:
        rm.spaces[new] = t
    else:
        parent.children[new] = t
    t.formula = _copy.deepcopy(source.formula)
    t.doc = source.doc
    for n in rm.ref_names(source):
        definer, ref = rm.find_ref(source, n)
        v = ref.value
        if isinstance(v, R.Obj) and ref.mode != "absolute" and definer is not source:
            dp = definer.path
            if v.path == dp:
                v = R.Obj(source.path)
            elif v.path[:-1] == dp and rm.find_cells(definer, v.path[-1]) is not None and not rm.has_space(v.path):
                v = R.Obj(source.path + (v.path[-1],))
        t.refs[n] = R.RRef(v, "auto")
    for n in list(source.cells):
        _copy_cells(rm, source, n, t, n)
        t.cells[n].cached = True
    for cn, ch in list(source.children.items()):
        if ch is not t:
            _copy_space(rm, ch, t, cn)
    return t


def _bound_key(rm, sid, name, key):
    """the key as the cells binds it (defaulted arguments filled in)"""
    try:
        ctx = R.Evaluator(rm).ctx_of(sid)
        cdef = rm.find_cells(ctx.base, name)[1]
        ba = cdef.signature().bind(*key)
        ba.apply_defaults()
        return tuple(ba.arguments.values())
    except Exception:
        return key


def apply_ref(rm, op):
    """Apply an accepted operation to the reference model."""
    k = op[0]
    a = op[1:]
    if k == "new_space":
        parent, name = tuple(a[0]), a[1]
        bases = a[2] if len(a) > 2 else None
        formula = a[3] if len(a) > 3 else None
        ps = rm.space(parent) if parent else None
        s = R.RSpace(name, ps)
        if ps is None:
            rm.spaces[name] = s
        else:
            ps.children[name] = s
        s.bases = [tuple(b) for b in (bases or [])]
        s.formula = formula
    elif k == "del_space":
        path = tuple(a[0])
        if len(path) == 1:
            del rm.spaces[path[0]]
        else:
            del rm.space(path[:-1]).children[path[-1]]
        n = len(path)
        for s in rm.all_spaces():
            s.bases = [b for b in s.bases if b[:n] != path]
        _drop_inputs(rm, lambda key: key[0][:n] == path)
    elif k == "rename_space":
        path, new = tuple(a[0]), a[1]
        s = rm.space(path)
        cont = rm.spaces if len(path) == 1 else rm.space(path[:-1]).children
        # keep position
        items = [(new if kk == path[-1] else kk, v) for kk, v in cont.items()]
        cont.clear()
        cont.update(items)
        s.name = new
        n = len(path)
        newpath = path[:-1] + (new,)
        for sp in rm.all_spaces():
            sp.bases = [newpath + b[n:] if b[:n] == path else b for b in sp.bases]
            for r in sp.refs.values():
                if isinstance(r.value, R.Obj) and r.value.path[:n] == path:
                    r.value = R.Obj(newpath + r.value.path[n:])
        for nm, v in list(rm.refs.items()):
            if isinstance(v, R.Obj) and v.path[:n] == path:
                rm.refs[nm] = R.Obj(newpath + v.path[n:])
        _drop_inputs(rm, lambda key: key[0][:n] == path)
    elif k == "add_bases":
        s = rm.space(tuple(a[0]))
        new = [tuple(b) for b in a[1]]
        # (adding a space that already is a direct base moves it to the end of the base list)
        s.bases = [b for b in s.bases if b not in new] + new
    elif k == "remove_bases":
        s = rm.space(tuple(a[0]))
        rem = [tuple(b) for b in a[1]]
        s.bases = [b for b in s.bases if b not in rem]
    elif k == "set_formula":
        rm.space(tuple(a[0])).formula = a[1]
    elif k == "new_cells":
        s = rm.space(tuple(a[0]))
        s.cells[a[1]["name"]] = mk_rcells(a[1])
    elif k == "set_cells_formula":
        s = rm.space(tuple(a[0]))
        name, c = a[1], a[2]
        old = rm.find_cells(s, name)[1]
        new = mk_rcells(dict(c, name=name))
        new.cached = old.cached
        new.allow_none = old.allow_none
        s.cells[name] = new
    elif k == "del_cells":
        s = rm.space(tuple(a[0]))
        del s.cells[a[1]]
    elif k == "new_pandas":
        pass        # (an opaque value under a name formulas never read)
    elif k == "set_recursion":
        rm.maxdepth = a[0]
    elif k == "copy_cells":
        src, name, dst, new = tuple(a[0]), a[1], tuple(a[2]), a[3]
        _copy_cells(rm, rm.space(src), name, rm.space(dst), new)
    elif k == "copy_space":
        src, dparent, new = tuple(a[0]), tuple(a[1]), a[2]
        source = rm.space(src)
        if dparent and dparent[:len(src)] == src:
            raise ValueError("cannot copy to child")
        _copy_space(rm, source, rm.space(dparent) if dparent else None, new)
    elif k == "rename_cells":
        s = rm.space(tuple(a[0]))
        old, new = a[1], a[2]
        items = []
        for kk, v in s.cells.items():
            if kk == old:
                v.name = new
                items.append((new, v))
            else:
                items.append((kk, v))
        s.cells.clear()
        s.cells.update(items)
    elif k == "set_cached":
        s = rm.space(tuple(a[0]))
        found = rm.find_cells(s, a[1])
        if a[1] not in s.cells:
            c = found[1].copy()
            s.cells[a[1]] = c
        s.cells[a[1]].cached = a[2]
    elif k == "set_allow_none":
        path, name, v = tuple(a[0]), a[1], a[2]
        o = rm.space(path) if path else rm
        if name is not None:
            o = o.cells[name]
        o.allow_none = v if v is None else bool(v)
    elif k == "set_ref":
        path, name, vs = tuple(a[0]), a[1], a[2]
        mode = a[3] if len(a) > 3 and a[3] else "auto"
        if path:
            rm.space(path).refs[name] = R.RRef(ref_value(vs), mode)
        else:
            rm.refs[name] = ref_value(vs)
    elif k == "del_ref":
        path, name = tuple(a[0]), a[1]
        if path:
            del rm.space(path).refs[name]
        else:
            del rm.refs[name]
    elif k == "set_value":
        sid, name, key, value = tup(a[0]), a[1], _bound_key(rm, tup(a[0]), a[1], tup(a[2])), a[3]
        rm.inputs.setdefault((sid, name), {})[key] = value
    elif k == "clear_at":
        sid, name, key = tup(a[0]), a[1], _bound_key(rm, tup(a[0]), a[1], tup(a[2]))
        d = rm.inputs.get((sid, name))
        if d and key in d:
            del d[key]
    elif k == "clear":
        pass
    elif k == "clear_all":
        rm.inputs.pop((tup(a[0]), a[1]), None)
    elif k == "clear_all_space":
        path = tuple(a[0])
        n = len(path)
        _drop_inputs(rm, lambda key: _static_prefix(key[0])[:n] == path and len(_static_prefix(key[0])) >= n)
    elif k == "clear_all_model":
        rm.inputs.clear()
    elif k in ("del_item", "clear_items"):
        path = tuple(a[0])
        n = len(path)
        if k == "del_item":
            pre = path + (tup(a[1]),)
            _drop_inputs(rm, lambda key: key[0][:n + 1] == pre)
        else:
            _drop_inputs(rm, lambda key: key[0][:n] == path and len(key[0]) > n
                         and not isinstance(key[0][n], str))
    elif k == "arm":
        if a[1]:
            rm.armed[a[0]] = a[1]
        else:
            rm.armed.pop(a[0], None)
    elif k == "set_doc":
        path, name, text = tuple(a[0]), a[1], a[2]
        o = rm.space(path) if path else rm
        if name is not None:
            o = o.cells[name]
        o.doc = text
    elif k in ("eval", "recalc"):
        pass
    else:
        raise ValueError("unknown op %r" % (op,))


# operations on values that are edits when inputs are involved (harmless on a cold twin)
VALUE_EDIT_OPS = {"clear_at", "clear_all", "clear_all_space", "clear_all_model", "clear_items"}

EDIT_OPS = {
    "new_space", "del_space", "rename_space", "add_bases", "remove_bases", "set_formula",
    "new_cells", "set_cells_formula", "del_cells", "rename_cells", "set_cached", "copy_cells", "copy_space", "new_pandas",
    "set_allow_none", "set_ref", "del_ref", "set_value", "arm", "recalc", "set_doc",
}
