"""File-system fault injection from outside modelx: a process-wide audit hook
(sys.addaudithook) that is inert unless armed.  While active it counts the
file-system events whose path lies under a scratch root and raises OSError at
the k-th one."""

import os
import time
import sys
import tempfile

EVENTS = {
    "open": (0,),
    "os.mkdir": (0,),
    "os.rename": (0, 1),
    "os.remove": (0,),
    "os.rmdir": (0,),
    "os.scandir": (0,),
    "os.listdir": (0,),
    "os.chmod": (0,),
    "os.truncate": (0,),
    "os.link": (0, 1),
    "os.symlink": (0, 1),
    "shutil.move": (0, 1),
    "shutil.rmtree": (0,),
    "shutil.copyfile": (0, 1),
    "shutil.copytree": (0, 1),
    "tempfile.mkdtemp": (0,),
    "tempfile.mkstemp": (0,),
}


class InjectedFault(OSError):
    pass


class InjectedPermission(InjectedFault, PermissionError):
    """the persistent flavour: the same file keeps refusing (retry loops see it every time)"""


class Injector:
    def __init__(self):
        self.persistent = False
        self.sticky_path = None
        self.active = False
        self.root = None
        self.count = 0
        self.arm_at = None
        self.log = []
        self.fired = None
        self.installed = False

    def install(self):
        if not self.installed:
            sys.addaudithook(self._hook)
            self.installed = True

    def _hook(self, event, args):
        if not self.active or event not in EVENTS:
            return
        root = self.root
        hit = None
        for i in EVENTS[event]:
            if i >= len(args):
                continue
            p = args[i]
            if isinstance(p, int) or p is None:
                continue
            try:
                ap = os.path.abspath(os.fsdecode(os.fspath(p)))
            except Exception:
                continue
            if ap == root or ap.startswith(root + os.sep):
                hit = ap
                break
        if hit is None:
            return
        mode = args[1] if event == "open" and len(args) > 1 else None
        if event == "open" and mode == "r+" and hit.endswith(".zip"):
            # zipfile.ZipFile(mode="a") itself catches an OSError from this open and falls back to
            # re-creating the archive ('w+b'): an injected fault here is swallowed by the standard library
            # and turned into truncation, which is not a failure modelx gets to see - not injected
            return
        self.count += 1
        self.log.append((event, os.path.relpath(hit, root), mode))
        if self.sticky_path is not None:
            if hit == self.sticky_path:
                raise InjectedPermission(13, "injected persistent fault: %s %s" % (event, os.path.relpath(hit, root)))
            return
        if self.persistent and self.arm_at is not None and self.count == self.arm_at:
            self.arm_at = None
            self.fired = self.log[-1]
            self.sticky_path = hit          # every later operation on this very file fails the same way
            raise InjectedPermission(13, "injected persistent fault at event %d: %s %s" % (
                self.count, event, os.path.relpath(hit, root)))
        if self.arm_at is not None and self.count == self.arm_at:
            self.arm_at = None
            self.fired = self.log[-1]
            self.active = False         # one fault per activation; cleanup code runs undisturbed
            raise InjectedFault("injected fault at event %d: %s %s" % (self.count, event, os.path.relpath(hit, root)))

    def run(self, root, fn, arm_at=None, persistent=False):
        """Run fn() with the hook active under ``root``.

        Returns (result | None, exception | None, number of events seen, fired event | None).
        """
        self.install()
        self.root = os.path.abspath(root)
        self.count = 0
        self.log = []
        self.fired = None
        self.arm_at = arm_at
        self.persistent = persistent
        self.sticky_path = None
        old_tmp = tempfile.tempdir
        tmpd = os.path.join(self.root, "_tmp")
        os.makedirs(tmpd, exist_ok=True)
        tempfile.tempdir = tmpd
        old_sleep = time.sleep
        time.sleep = lambda seconds: None       # retry loops wait between attempts: the harness owns the clock
        self.active = True
        try:
            res = fn()
            exc = None
        except BaseException as e:      # noqa: the operation under test may raise anything
            res, exc = None, e
        finally:
            self.active = False
            self.sticky_path = None
            time.sleep = old_sleep
            tempfile.tempdir = old_tmp
        return res, exc, self.count, self.fired


INJECTOR = Injector()
