"""Formula expression AST shared by the generators, the renderer and the
reference interpreter.

An expression is JSON-able nested lists:

  ["lit", v]                      int / str literal
  ["var", n]                      parameter, comprehension or lambda variable
  ["name", n]                     global name (cells / reference / child space / builtin)
  ["attr", e, n]                  attribute path   e.n
  ["call", e, [args], style]      style "()" or "[]"   (e is a name/attr expression)
  ["kwcall", e, [[kw, arg], ...]] keyword call
  ["value", e]                    e.value   (scalar cells)
  ["bin", op, a, b]               op in + - *
  ["mod", a, k]                   a % k     (k positive int literal)
  ["ifgt", a, k, b, c]            (b if a > k else c)
  ["sum", v, k, body]             sum(body for v in range(k))
  ["lst", v, k, body]             len([body for v in range(k)]) + sum([...])  -> we use sum of list
  ["lam", v, body, arg]           (lambda v: body)(arg)
  ["try", body, exc, alt]         only in def-form:   try: return body / except exc: return alt
  ["fail", tag]                   _fail(tag)   harness fault point (returns 0 or raises)
  ["none"]                        None literal (only where a check is about None)

A cells definition is
  {"name": str, "params": [[p, default|None], ...], "expr": e, "cached": bool,
   "allow_none": None|bool, "form": "lambda"|"def", "tick": bool}
"""

import keyword

BINOPS = {"+": lambda a, b: a + b, "-": lambda a, b: a - b, "*": lambda a, b: a * b, "//": lambda a, b: a // b}


def render(e):
    """Python source of expression ``e`` (fully parenthesised where needed)."""
    k = e[0]
    if k == "lit":
        return repr(e[1])
    if k == "none":
        return "None"
    if k == "var" or k == "name":
        return e[1]
    if k == "attr":
        return "%s.%s" % (render(e[1]), e[2])
    if k == "call":
        args = ", ".join(render(a) for a in e[2])
        if e[3] == "[]":
            if len(e[2]) == 1:
                return "%s[%s]" % (render(e[1]), args)
            return "%s[%s]" % (render(e[1]), args if args else "()")
        return "%s(%s)" % (render(e[1]), args)
    if k == "kwcall":
        args = ", ".join("%s=%s" % (kw, render(a)) for kw, a in e[2])
        return "%s(%s)" % (render(e[1]), args)
    if k == "matchv":
        # ["matchv", cells-object expression, args]: the value of the best matching entry (Cells.match)
        return "%s.match(%s).value" % (render(e[1]), ", ".join(render(a) for a in e[2]))
    if k == "value":
        return "%s.value" % render(e[1])
    if k == "bin":
        return "(%s %s %s)" % (render(e[2]), e[1], render(e[3]))
    if k == "mod":
        return "(%s %% %d)" % (render(e[1]), e[2])
    if k == "ifgt":
        return "(%s if %s > %d else %s)" % (render(e[3]), render(e[1]), e[2], render(e[4]))
    if k == "sum":
        return "sum(%s for %s in range(%d))" % (render(e[3]), e[1], e[2])
    if k == "lst":
        return "sum([%s for %s in range(%d)])" % (render(e[3]), e[1], e[2])
    if k == "lam":
        return "(lambda %s: %s)(%s)" % (e[1], render(e[2]), render(e[3]))
    if k == "raw":
        return e[1]         # literal source (differential checks only: the reference does not evaluate it)
    if k == "thennone":
        return "((%s), None)[1]" % render(e[1])         # evaluates e, answers None
    if k == "isnone":
        return "(1 if (%s) is None else 0)" % render(e[1])
    if k == "fail":
        return "_fail(%r)" % (e[1],)
    if k == "try":
        return "_try(lambda: %s, lambda: %s)" % (render(e[1]), render(e[2]))
    if k == "failx":
        return "_fail(%r + str(%s))" % (e[1], e[2]) if e[2] else "_fail(%r)" % (e[1],)
    if k == "failnone":
        return "(%s if _failn(%r) == 0 else None)" % (render(e[2]), e[1])
    raise ValueError("cannot render %r" % (e,))


def params_src(params):
    out = []
    for p, d in params:
        out.append(p if d is None else "%s=%r" % (p, d))
    return ", ".join(out)


def tick_src(name, params):
    return "_t(_space, %r, (%s))" % (name, "".join(p + ", " for p, _ in params))


def cells_source(c, name=None):
    """Source text handed to new_cells / formula setter."""
    name = name or c["name"]
    params = c["params"]
    body = render(c["expr"])
    tick = tick_src(c.get("tickname", c["name"]), params) if c.get("tick", True) else None
    if c.get("form", "lambda") == "lambda":
        if tick:
            return "lambda %s: %s or %s" % (params_src(params), tick, body)
        return "lambda %s: %s" % (params_src(params), body)
    # "defname": the function is written under another name than the cells gets (new_cells(name, formula) renames it)
    lines = ["def %s(%s):" % (c.get("defname") or name, params_src(params))]
    if c.get("doc"):
        lines.append('    """%s"""' % c["doc"])
    if tick:
        lines.append("    " + tick)
    if c.get("form") == "deflines":
        # one term per line, so that the line of every call is known:  a<i> = <term>
        # guard 1: the line sits in try/finally; guard 2: in try/except with a clause that never matches;
        # guard [3, e]: try/finally whose finally block evaluates e
        guards = c.get("guards") or [0] * len(c["terms"])
        for i, t in enumerate(c["terms"]):
            g = guards[i] if i < len(guards) else 0
            if g:
                lines.append("    try:")
                lines.append("        a%d = %s" % (i, render(t)))
                if isinstance(g, list):
                    # guard [3, e]: the finally block evaluates another expression while the failure passes
                    lines.append("    finally:")
                    lines.append("        _ = %s" % render(g[1]))
                elif g == 1:
                    lines.append("    finally:")
                    lines.append("        _ = 0")
                else:
                    lines.append("    except StopAsyncIteration:")
                    lines.append("        a%d = 0" % i)
            else:
                lines.append("    a%d = %s" % (i, render(t)))
        lines.append("    return " + (" + ".join("a%d" % i for i in range(len(c["terms"]))) or "0"))
        return "\n".join(lines) + "\n"
    lines.append("    return " + body)
    return "\n".join(lines) + "\n"


def first_term_line(c):
    """1-based line of term 0 in the deflines layout"""
    return 2 + (1 if c.get("doc") else 0) + (1 if c.get("tick", True) else 0)


def term_lines(c):
    """1-based source lines of every term of the deflines layout, plus the return line (last element)"""
    guards = c.get("guards") or [0] * len(c["terms"])
    line = first_term_line(c)
    out = []
    for i in range(len(c["terms"])):
        g = guards[i] if i < len(guards) else 0
        if g:
            out.append(line + 1)
            line += 4
        else:
            out.append(line)
            line += 1
    out.append(line)
    return out


def sum_expr(terms):
    if not terms:
        return ["lit", 0]
    body = terms[0]
    for t in terms[1:]:
        body = ["bin", "+", body, t]
    return body


def walk(e):
    yield e
    k = e[0]
    if k in ("lit", "var", "name", "fail", "failx", "none"):
        return
    if k == "attr" or k == "value":
        yield from walk(e[1])
    elif k == "call" or k == "matchv":
        yield from walk(e[1])
        for a in e[2]:
            yield from walk(a)
    elif k == "kwcall":
        yield from walk(e[1])
        for _, a in e[2]:
            yield from walk(a)
    elif k == "bin":
        yield from walk(e[2]); yield from walk(e[3])
    elif k == "mod":
        yield from walk(e[1])
    elif k == "ifgt":
        yield from walk(e[1]); yield from walk(e[3]); yield from walk(e[4])
    elif k in ("sum", "lst"):
        yield from walk(e[3])
    elif k == "lam":
        yield from walk(e[2]); yield from walk(e[3])
    elif k == "failnone":
        yield from walk(e[2])
    elif k == "try":
        yield from walk(e[1]); yield from walk(e[2])
    elif k in ("thennone", "isnone"):
        yield from walk(e[1])


def global_names(e):
    """Global names mentioned by the expression (heads of name nodes)."""
    return {n[1] for n in walk(e) if n[0] == "name"}


def is_ident(s):
    return isinstance(s, str) and s.isidentifier() and not keyword.iskeyword(s)
