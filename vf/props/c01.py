"""C01 - memoisation is transparent: values equal cache-less evaluation, computed once.

Generator: static models (nested spaces, own and model-level references, child
spaces, names shadowing built-ins) + a list of queries in all spellings,
interleaved with clear()/clear_at().
Oracle: (R) the reference interpreter's value for every query; the execution
log (ticks) of every query equals, as a sequence, the log predicted from the
reference call tree under "a cached element executes at most once while held";
dict(cells) equals the reference values for all held keys.
"""

from collections import Counter

from hypothesis import strategies as st

from .. import gen, ref as R
from ..drive import Real, apply_ref, reset_session, take_ticks, tup, plain_real, EDIT_OPS
from ..runner import Outcome

ID = "C01"
LEVEL = "exploration"
DESIGN_REF = "DESIGN.md section 6, C01"
RULE = ("model = generated build operations (1-3 top spaces, children, references, 1-4 cells each from the "
        "terminating grammar) followed by 10-30 queries in mixed spellings and clears; non-trivial = during some "
        "query a cached element is reached a second time inside a formula (cache hit from a second caller) AND "
        "some query asks directly for an element that an earlier query had already computed as a dependency "
        "(order inversion); distinct = distinct case hash")
ASSUMPTIONS = [
    "reference interpreter vf/ref.py implements the name-resolution order stated in C01",
    "arguments are small ints (no equality-colliding keys such as 1/True/1.0)",
    "execution is observed through a model-level reference _t called first in every generated formula",
]
SIGNATURES = {}

FEAT = gen.Feat(shadow=True, uncached=True, objrefs=True, allow_none=True)


def plan(tier):
    if tier == "quick":
        return {"shards": 8, "examples": 400, "wall": 100}
    return {"shards": 16, "examples": 6000, "wall": 2400}


@st.composite
def cases(draw):
    ops, G = gen.gen_model_ops(draw, FEAT)
    nq = draw(st.integers(8, 24))
    for _ in range(nq):
        k = draw(st.integers(0, 9))
        gen.ODD_ARGS[0] = True
        try:
            q = gen.gen_query(draw, G)
        finally:
            gen.ODD_ARGS[0] = False
        if q is None:
            break
        if k == 2 and draw(st.integers(0, 2)) == 0:
            # a cells (with whatever it holds by now) is copied into another space under the same name: the copy
            # evaluates its formula with the names of the space it is in now
            srcs = [(sp.path, n) for sp in G.all_spaces() for n in sp.cells if gen.rank_of(n) >= 0]
            if srcs:
                src, name = draw(st.sampled_from(sorted(srcs)))
                tgts = [t for t in G.all_spaces() if G.find_cells(t, name) is None and name not in t.children
                        and G.find_ref(t, name) is None and t.formula is None]
                if tgts:
                    t = draw(st.sampled_from(tgts))
                    op = ["copy_cells", list(src), name, list(t.path), name]
                    ops.append(op)
                    apply_ref(G, op)
            continue
        if k == 0:
            ops.append(["clear", q[1], q[2]])
        elif k == 1 and q[5] == "()" and not q[4]:
            ops.append(["clear_at_bound", q[1], q[2], q[3]])
        else:
            ops.append(q)
    return {"ops": ops}


def strategy(tier):
    return cases()


def predict_ticks(trace, top, held, order_out):
    """Execution log predicted from the reference call tree with memoisation."""
    hits = [0]

    def run(elem, top_level):
        if elem not in trace.calls:
            return          # input value or an element the reference never executed to completion
        cached = trace.cached.get(elem, True)
        if cached and elem in held:
            if not top_level:
                hits[0] += 1
            return
        if elem[1] is not None:
            order_out.append(elem)
        for callee in trace.calls[elem]:
            run(callee, False)
        if cached:
            held.add(elem)
    run(top, True)
    return hits[0]


def run_case(case):
    out = Outcome()
    reset_session()
    real = Real()
    rm = R.RModel()
    held = set()            # elements (sid, name, key) the harness believes hold a computed value
    inversion = False
    hits = 0
    nq = 0
    for i, op in enumerate(case["ops"]):
        k = op[0]
        if k in EDIT_OPS:
            res = real.apply(op)
            if res[0] == "ok":
                apply_ref(rm, op)
            else:
                out.count("rejected_build_ops")
            if k == "copy_cells":
                # which values a new cells in a space drops is C02's business: resynchronise - except for the copy
                # itself, which starts with the assigned values of its source and nothing computed
                held = {(s, n, key) for (s, n), d in real.held().items() for key in d
                        if (s, n) != (tuple(op[3]), op[4])}
                out.label("copy_in_history")
            continue
        sid = tup(op[1])
        try:
            ctx = R.Evaluator(rm).ctx_of(sid)
            found = rm.find_cells(ctx.base, op[2])
        except (KeyError, AttributeError):
            found = None
        if found is None:
            continue
        if k == "clear" or k == "clear_at_bound":
            if k == "clear":
                res = real.apply(["clear", op[1], op[2]])
            else:
                res = real.apply(["clear_at", op[1], op[2], op[3]])
            if res[0] != "ok" and k == "clear":
                return out.fail("clear-raised", "%r -> %r" % (op, res), i)
            # which values a clear drops is C06's business: resynchronise
            held = {(s, n, key) for (s, n), d in real.held().items() for key in d}
            continue
        # evaluation
        try:
            exp = R.evaluate(rm, sid, op[2], tup(op[3]), op[4])
        except R.Budget:
            out.discard = True
            return out
        trace = exp[2]
        take_ticks()
        res = real.apply(op)
        ticks = take_ticks()
        nq += 1
        if exp[0] == "ok":
            got = ("ok", plain_real(res[1])) if res[0] == "ok" else res
            if got != ("ok", exp[1]) or type(got[1]) is not type(exp[1]):
                return out.fail("value", "query %r: modelx %r, reference %r" % (op, got, exp[:2]), i)
        else:
            if res[0] != "err" or res[1] != exp[1]:
                return out.fail("error-kind", "query %r: modelx %r, reference %r" % (op, res, exp[:2]), i)
            out.count("erroring_queries")
            held = {(s, n, key) for (s, n), d in real.held().items() for key in d}
            continue
        # execution log
        top = trace.entered[0] if trace.entered else None
        pred = []
        if top is not None:
            ba_key = top
            if ba_key in held:
                inversion = True
            h = predict_ticks(trace, ba_key, held, pred)
            hits += h
        else:
            # the top element is an input: nothing executes
            pass
        if top is not None and trace.cached.get(top, True) and top in held and not pred:
            out.count("top_level_cache_hits")
        if ticks != pred:
            cnt_r, cnt_p = Counter(ticks), Counter(pred)
            twice = [e for e, c in cnt_r.items() if c > cnt_p.get(e, 0)]
            return out.fail("execution-log",
                            "query %r: executed %r, expected %r (extra executions: %r)" % (op, ticks, pred, twice), i)
    # held values equal reference values
    snapshot = real.held()
    keys = {(s, n, key) for (s, n), d in snapshot.items() for key in d}
    inputs = {(s, n, key) for (s, n), d in rm.inputs.items() for key in d}
    if keys != held | (inputs & keys) or not inputs <= keys | inputs:
        missing = held - keys
        extra = keys - held - inputs
        if missing or extra:
            return out.fail("held-set", "held keys differ: missing %r, unexpected %r" % (sorted(missing, key=repr)[:5],
                                                                                      sorted(extra, key=repr)[:5]),
                            len(case["ops"]) - 1)
    nchecked = 0
    for (s, n), d in snapshot.items():
        for key, v in d.items():
            if nchecked >= 40:
                break
            try:
                e = R.evaluate(rm, s, n, key)
            except R.Budget:
                continue
            nchecked += 1
            if e[0] != "ok" or e[1] != plain_real(v):
                return out.fail("held-value", "dict(%s.%s)[%r] = %r, reference %r" % (s, n, key, v, e[:2]),
                                len(case["ops"]) - 1)
    out.count("queries", nq)
    out.count("formula_cache_hits", hits)
    out.nontrivial = hits > 0 and inversion
    if hits:
        out.label("cache_hit_inside_formula")
    if inversion:
        out.label("order_inversion")
    return out
