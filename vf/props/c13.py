"""C13 - deletion is complete: old handles raise, no value computed from it survives.

Generator: histories that build structure (children, sub spaces with derived
members, ItemSpaces incl. nested), evaluate, CAPTURE HANDLES at arbitrary points
(static spaces and cells, derived cells, ItemSpaces, cells and child spaces inside
ItemSpaces) and delete through every trigger: del of a cells, a child space, a
top-level space, a reference, an ItemSpace (del P[k], clear_items), removal of a
base member, remove_bases, deleting the base space, renaming, formula changes.
Oracle (R + I + T), after every step and for every captured handle: the handle
either raises DeletedObjectError on every access, or it IS the object currently
registered under its own parent and name all the way up to the model (no handle
acts on orphaned state); statically defined objects are alive exactly when the
reference model says they still exist; the trace graph mentions no deleted
object; after every deleting step the live model answers a query battery like a
cold twin that only received the edits (nothing computed from a deleted object
survives).
"""

from hypothesis import strategies as st

import modelx as mx
from modelx.core.cells import Cells
from modelx.core.errors import DeletedObjectError
from modelx.core.model import Model
from modelx.core.space import ItemSpace

from .. import gen, ref as R
from ..drive import Real, apply_ref, reset_session, tup, EDIT_OPS, VALUE_EDIT_OPS
from ..runner import Outcome
from .c02 import run_battery

ID = "C13"
LEVEL = "exploration"
DESIGN_REF = "DESIGN.md section 6, C13"
RULE = ("history = generated model (inheritance, ItemSpaces, nested children) + 8-24 steps of evaluations, handle "
        "captures and deleting/re-deriving edits; non-trivial = a handle to a derived or dynamic object existed before a "
        "step that deleted it (the handle changed from alive to DeletedObjectError); distinct = case hash")
ASSUMPTIONS = [
    "handles are Interface objects (spaces, cells, ItemSpaces and their members); reference proxies are not handles",
    "for derived and dynamic objects either outcome (deleted, or re-registered instance) is accepted, as C07 states",
]
SIGNATURES = {}

FEAT = gen.Feat(inherit=True, items=True, item_base=True, uncached=True, objrefs=False, shadow=False, max_top=3, max_child=2,
                max_cells=3, max_rank=3, depth=2, tick=False)
DEL_KINDS = ["del_cells", "del_cells", "del_space", "del_space", "del_ref", "remove_bases", "add_bases", "rename_cells",
             "rename_space", "set_cells_formula", "override", "new_cells", "set_formula", "del_formula", "set_ref"]


def plan(tier):
    if tier == "quick":
        return {"shards": 8, "examples": 350, "wall": 100}
    return {"shards": 16, "examples": 5000, "wall": 2400}


@st.composite
def histories(draw):
    ops, G = gen.gen_model_ops(draw, FEAT)
    for _ in range(draw(st.integers(8, 24))):
        k = draw(st.sampled_from(list(range(16)) + [12, 12, 12, 12, 13, 15]))     # (the directed scenarios a bit more often)
        sids = gen.all_ctx_ids(G) + gen.item_sids(G, 2)
        if not sids:
            break
        if k <= 2:
            q = gen.gen_query(draw, G, sids)
            if q:
                q[1] = gen._jsid(tup(q[1]))
                ops.append(q)
        elif k <= 5:
            sid = draw(st.sampled_from(sids))
            try:
                ctx = R.Evaluator(G).ctx_of(sid)
            except Exception:
                continue
            names = G.cells_names(ctx.base)
            what = draw(st.sampled_from(names + [None] + list(ctx.base.children)))
            ops.append(["capture", gen._jsid(sid), what])
        elif k == 12:
            # a space elsewhere inherits from a NESTED child of a top-level space; handles to what it derives are
            # taken, a value is computed from it, then the top-level space is deleted
            tops = [t for t in G.spaces.values() if t.children]
            outs = [o for o in G.all_spaces() if tops and o.path[0] != tops[0].path[0]]
            if tops and outs:
                t = draw(st.sampled_from(tops))
                ch = draw(st.sampled_from(sorted(t.children.values(), key=lambda c: c.path)))
                o = draw(st.sampled_from([o for o in G.all_spaces() if o.path[0] != t.path[0]] or outs))
                seq = [["add_bases", list(o.path), [list(ch.path)]]]
                if gen.apply_edit_to_picture(G, seq[0], allow_dangling=True):
                    ops.append(seq[0])
                    for n in G.cells_names(ch)[:2]:
                        ops.append(["capture", gen._jsid(o.path), n])
                        cdef = G.find_cells(ch, n)[1]
                        ops.append(["eval", gen._jsid(o.path), n, [0] * len(cdef.params), None, "()"])
                    op = ["del_space", list(t.path)]
                    if gen.apply_edit_to_picture(G, op, allow_dangling=True):
                        ops.append(op)
        elif k == 13:
            # a cells in another space reads, through an attribute path, a reference that a sub space DERIVES;
            # the sub space is deleted
            subs = [s_ for s_ in G.all_spaces() if s_.bases and [n for n in G.ref_names(s_) if n not in s_.refs]]
            if subs:
                sub = draw(st.sampled_from(subs))
                rn = draw(st.sampled_from([n for n in G.ref_names(sub) if n not in sub.refs]))
                others = [o for o in G.all_spaces() if o.path[:len(sub.path)] != sub.path
                          and G.find_cells(o, "rd0") is None and "rd0" not in o.children and G.find_ref(o, "rd0") is None]
                if others:
                    o = draw(st.sampled_from(others))
                    e = ["name", "_model"]
                    for part in sub.path:
                        e = ["attr", e, part]
                    rd = {"name": "rd0", "params": [], "expr": ["lst", "i", 1, ["attr", e, rn]], "cached": True,
                          "allow_none": None, "form": "lambda", "tick": False}
                    op = ["new_cells", list(o.path), rd]
                    if gen.apply_edit_to_picture(G, op, allow_dangling=True):
                        ops.append(op)
                        ops.append(["eval", gen._jsid(o.path), "rd0", [], None, "()"])
                        op = ["del_space", list(sub.path)]
                        if gen.apply_edit_to_picture(G, op, allow_dangling=True):
                            ops.append(op)
        elif k == 14:
            # an instance is captured; then the base gets a relative-mode reference to an outside object (accepted
            # while no static sub exists), after which no instance can be created: the old handle must stay dead
            ps = [s_ for s_ in G.all_spaces() if s_.formula is not None and not G.subs(s_)]
            outs = [o for o in G.all_spaces() if ps and o.path[0] != ps[0].path[0]]
            if ps and outs:
                s_ = draw(st.sampled_from(ps))
                o = draw(st.sampled_from([o for o in G.all_spaces() if o.path[:len(s_.path)] != s_.path
                                          and s_.path[:len(o.path)] != o.path] or outs))
                sid = gen._jsid(s_.path + ((1,) * len(s_.formula["params"]),))
                ops.append(["capture", sid, None])
                for n in G.cells_names(s_)[:1]:
                    ops.append(["capture", sid, n])
                ops.append(["set_ref_raw_obj", list(s_.path), "bad0", list(o.path), "relative"])
                ops.append(["capture", sid, None])          # (re-creation is attempted and fails)
                ops.append(["set_ref", [], "zz_pad", ["v", draw(st.integers(0, 9))], None])
        elif k == 15:
            # several instances of one space are built on ANOTHER space (the parameter formula names it as base);
            # handles to all of them are taken, then that other space is deleted: every one of them goes
            tops = [t for t in G.spaces.values() if not G.subs(t)]
            if len(tops) >= 2:
                d = draw(st.sampled_from(sorted(tops, key=lambda t: (len(t.children), t.path))[:2]))
                ps = [t for t in G.all_spaces() if t.path[0] != d.path[0]]
                if ps:
                    pp = draw(st.sampled_from(ps))
                    op = ["set_formula", list(pp.path), {"params": [["p", None]], "form": "lambda",
                                                         "ret": {"base": ["attr", ["name", "_model"], d.name], "refs": None}}]
                    if gen.apply_edit_to_picture(G, op, allow_dangling=True):
                        ops.append(op)
                        names = G.cells_names(d)[:1]
                        for a in draw(st.permutations([0, 1, 2])):
                            sid = gen._jsid(pp.path + ((a,),))
                            ops.append(["capture", sid, None])
                            for n in names:
                                ops.append(["capture", sid, n])
                        op = ["del_space", list(d.path)]
                        if gen.apply_edit_to_picture(G, op, allow_dangling=True):
                            ops.append(op)
        elif k == 6:
            items = gen.item_sids(G, 2)
            if items:
                sid = draw(st.sampled_from(items))
                ops.append(draw(st.sampled_from([["del_item", list(sid[:-1]), list(sid[-1])],
                                                 ["clear_items", list(sid[:-1])]])))
        else:
            op = gen.gen_edit(draw, G, FEAT, kinds=DEL_KINDS)
            if op is not None and gen.apply_edit_to_picture(G, op, allow_dangling=True):
                ops.append(op)
    return {"ops": ops}


def strategy(tier):
    return histories()


# ----------------------------------------------------------------------------

ACCESSES = ["name", "fullname", "parent", "doc"]


def status(h):
    """'alive' | 'deleted' | ('mixed', detail) | ('error', detail)"""
    results = []
    probes = list(ACCESSES)
    if isinstance(h, Cells):
        probes += ["formula", "parameters", "is_cached"]
    else:
        probes += ["cells", "spaces", "refs", "bases"]
    for a in probes:
        try:
            getattr(h, a)
            results.append((a, "ok"))
        except DeletedObjectError:
            results.append((a, "deleted"))
        except Exception as exc:
            return ("error", "%s raised %r" % (a, exc))
    kinds = {r for _, r in results}
    if kinds == {"ok"}:
        return "alive"
    if kinds == {"deleted"}:
        # calling / indexing must raise the same error
        try:
            if isinstance(h, Cells):
                h.clear()
            else:
                dir(h)
            return ("mixed", "an operation on the deleted handle did not raise")
        except DeletedObjectError:
            return "deleted"
        except Exception as exc:
            return ("mixed", "an operation on the deleted handle raised %r instead of DeletedObjectError" % (exc,))
    return ("mixed", "%r" % (results,))


def registered(h, model):
    try:
        return _registered(h, model)
    except DeletedObjectError:
        return False        # an ancestor of the handle is deleted: the handle acts on orphaned state


def _registered(h, model):
    """is ``h`` the object registered under its own parent/name, up to ``model``?"""
    o = h
    for _ in range(12):
        if isinstance(o, Model):
            return o is model and o.name in mx.get_models() and mx.get_models()[o.name] is o
        p = o.parent
        if isinstance(o, Cells):
            if p.cells.get(o.name) is not o:
                return False
        elif isinstance(o, ItemSpace):
            if not any(v is o for v in p.itemspaces.values()):
                return False
        else:
            if isinstance(p, Model):
                if p.spaces.get(o.name) is not o:
                    return False
            elif p.spaces.get(o.name) is not o:
                return False
        o = p
    return False


def run_case(case):
    out = Outcome()
    reset_session()
    live = Real("L", hooks=False)
    rm = R.RModel()
    edits = []
    handles = []        # dicts: obj, desc, static_defined key (kind, path, name) or None
    nt = False
    for i, op in enumerate(case["ops"]):
        k = op[0]
        if k == "eval":
            live.apply(op)
            continue
        if k == "capture":
            try:
                o = live.ctx(tup(op[1]))
                if op[2] is not None:
                    o = o.cells[op[2]] if op[2] in o.cells else o.spaces[op[2]]
            except Exception:
                continue
            if any(h["obj"] is o for h in handles):
                continue
            static = all(isinstance(x, str) for x in op[1])
            key = None
            if static:
                if isinstance(o, Cells):
                    if not o._is_derived():
                        key = ["cells", tuple(op[1]), o.name]
                else:
                    key = ["space", tuple(o._idtuple[1:]), None]
            handles.append({"obj": o, "desc": "%s %s" % (type(o).__name__, o.fullname), "key": key,
                            "volatile": not static or (isinstance(o, Cells) and o._is_derived())})
            continue
        before = {id(h["obj"]): status(h["obj"]) for h in handles}
        if k == "set_ref_raw_obj":
            try:
                live.space(op[1]).set_ref(op[2], live.space(op[3]), op[4])
                edits.append((["set_ref", op[1], op[2], ["o", op[3]], op[4]], "ok"))
            except Exception:
                pass
            res = ("skip", None)
        else:
            res = live.apply(op)
        if k in EDIT_OPS or k in VALUE_EDIT_OPS or k in ("del_item", "clear_items"):
            edits.append((op, res[0]))
        if res[0] == "ok" and k in EDIT_OPS:
            try:
                apply_ref(rm, op)
            except Exception:
                pass
            # follow statically defined objects through renames and deletions
            for h in handles:
                key = h["key"]
                if key is None or key == ("gone",):
                    continue
                if k == "rename_cells" and key[0] == "cells" and key[1] == tuple(op[1]) and key[2] == op[2]:
                    key[2] = op[3]
                elif k == "rename_space":
                    old = tuple(op[1])
                    if key[1][:len(old)] == old:
                        key[1] = old[:-1] + (op[2],) + key[1][len(old):]
                elif k == "del_cells" and key[0] == "cells" and key[1] == tuple(op[1]) and key[2] == op[2]:
                    h["key"] = ("gone",)
                elif k == "del_space":
                    old = tuple(op[1])
                    if key[1][:len(old)] == old:
                        h["key"] = ("gone",)
        # ---- invariants over all handles ----------------------------------------------
        for h in handles:
            st_ = status(h["obj"])
            if isinstance(st_, tuple):
                return out.fail("handle-" + st_[0], "after %r the handle %s behaves inconsistently: %s" % (
                    op, h["desc"], st_[1]), i)
            if st_ == "alive":
                if not registered(h["obj"], live.m):
                    return out.fail("orphan-handle", "after %r the handle %s still works but is no longer the object "
                                                     "registered under its parent and name (acts on orphaned state)" % (
                                                         op, h["desc"]), i)
            key = h["key"]
            if key == ("gone",) and st_ == "alive":
                return out.fail("deleted-object-alive", "after %r the handle %s to a deleted object still works" % (
                    op, h["desc"]), i)
            if key is not None and key != ("gone",) and st_ == "deleted":
                return out.fail("live-object-dead", "after %r the handle %s raises DeletedObjectError although the "
                                                    "object was not deleted" % (op, h["desc"]), i)
            if h["volatile"] and before.get(id(h["obj"])) == "alive" and st_ == "deleted":
                nt = True
        # ---- trace graph mentions no deleted object -------------------------------------
        for node in live.m.tracegraph.nodes:
            try:
                valid = node[0].interface._is_valid()
            except Exception:
                valid = False
            if not valid:
                return out.fail("deleted-object-in-graph", "after %r the trace graph still has a node of a deleted "
                                                           "object: %r" % (op, node), i)
        # ---- nothing computed from a deleted object survives (cold twin) -----------------
        if res[0] == "ok" and k in ("del_cells", "del_space", "del_ref", "remove_bases", "del_item", "clear_items",
                                    "rename_cells", "rename_space"):
            twin = Real("T", hooks=False)
            try:
                for e, st0 in edits:
                    if e[0] in ("del_item", "clear_items"):
                        continue
                    twin.apply(e)
                want = run_battery(twin)
            finally:
                try:
                    twin.m.close()
                except Exception:
                    pass
            got = run_battery(live)
            if got != want:
                for (q, g), (q2, w) in zip(got, want):
                    if (q, g) != (q2, w):
                        return out.fail("stale-after-deletion", "after %r: %r -> live %r, cold twin %r" % (op, q, g, w), i)
                return out.fail("stale-after-deletion", "after %r the batteries differ in length" % (op,), i)
            out.count("twin_comparisons")
    out.count("handles", len(handles))
    out.nontrivial = nt
    return out
