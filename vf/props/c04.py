"""C04 - write/read round trip (directory and zip) reproduces the model.

Generator: models from the full vocabulary - nested spaces, direct bases (also
across subtrees), parameter formulas (lambda and def), cells as lambda and def
with docstrings, defaults, allow_none in {None, True, False} on model / space /
cells, cached and uncached cells in both forms, documentation text with quotes,
backslashes, newlines and non-ASCII characters, references: literals (bool, ints
incl. negative and large, floats incl. inf / nan / -0.0 / 1e22, strings with
escapes, control and non-BMP characters, None), picklable containers, a module,
object-valued references in the three modes inside and outside the definer's
tree; input values (int / str keys) and inputs inside ItemSpaces.  Then a
container format and a write -> read chain of length 1-3.
Oracle (D): describe(read(write(m))) == describe(m) modulo the model name (NaN
aware); every cells answers a query battery identically; describe(m) is the same
before and after writing; the zip archive and the directory hold the same files
with the same text contents; a model written without error can be read back.
"""

import filecmp
import os
import shutil
import tempfile
import zipfile

from hypothesis import strategies as st

import modelx as mx

from .. import gen, ref as R
from ..describe import model_desc, diff
from ..drive import Real, apply_ref, reset_session, tup, EDIT_OPS
from ..runner import Outcome
from .c02 import run_battery

ID = "C04"
LEVEL = "exploration"
DESIGN_REF = "DESIGN.md section 6, C04"
RULE = ("generated full-vocabulary model x {directory, zip} x chain length 1-3; non-trivial = the model contains >=3 "
        "distinct construct kinds among {base, parameter formula, uncached cells, object reference, non-literal reference, "
        "input, ItemSpace input, non-trivial doc}; distinct = case hash")
ASSUMPTIONS = [
    "descriptions use public API only (vf/describe.py); object-valued references compared by target path",
    "a reference mode other than auto on a non-object value is not generated (known finding KF-C04-1 if listed)",
]

FEAT = gen.Feat(inherit=True, items=True, uncached=True, objrefs=True, shadow=False, max_top=3, max_child=2,
                max_cells=3, max_rank=4, depth=2, tick=False, allow_none=True, uncached_p=3)

DOC_TEXTS = ["plain doc", "two\nlines", "carriage\rreturn and\r\nCRLF", "", "with \"double\" quotes", "ends with a quote\"", "back\\slash and \\n",
             "unicode é中\U0001F600", "'single'", "tab\there", "  leading and trailing  ", "triple \"\"\" inside"]
PY_VALUES = ["float('nan')", "float('inf')", "-float('inf')", "-0.0", "1e22", "1.5", "-7", "2**70", "True", "False", "None",
             "'a\\nb\\t\\x01'", "'\\U0001F600 \\u00e9'", "''", "'quote\"s'", "[1, 2, {'a': (3, 4)}]", "{'k': [1.5, None]}",
             "(1, 'x')", "{1, 2}", "fractions.Fraction(1, 3)", "datetime.date(2020, 1, 2)", "math", "b'bytes'",
             "collections.OrderedDict(a=1)", "3 + 4j"]


def plan(tier):
    if tier == "quick":
        return {"shards": 8, "examples": 200, "wall": 100}
    return {"shards": 16, "examples": 3000, "wall": 2400}


@st.composite
def cases(draw):
    # drawn first: late draws degrade to their simplest value when a large model exhausts the entropy budget
    use_zip = draw(st.booleans())
    chain = draw(st.integers(1, 3))
    ops, G = gen.gen_model_ops(draw, FEAT)
    spaces = G.all_spaces()
    extra = []
    # documentation
    if draw(st.booleans()):
        extra.append(["set_doc", [], None, draw(st.sampled_from(DOC_TEXTS))])
    for s in spaces:
        if draw(st.integers(0, 2)) == 0:
            extra.append(["set_doc", list(s.path), None, draw(st.sampled_from(DOC_TEXTS))])
        for n in s.cells:
            if draw(st.integers(0, 3)) == 0:
                extra.append(["set_doc", list(s.path), n, draw(st.sampled_from(DOC_TEXTS))])
    # allow_none
    if draw(st.integers(0, 2)) == 0:
        extra.append(["set_allow_none", [], None, draw(st.sampled_from([True, False]))])
    for s in spaces:
        if draw(st.integers(0, 3)) == 0:
            extra.append(["set_allow_none", list(s.path), None, draw(st.sampled_from([True, False, None]))])
        for n in s.cells:
            # (a later change of allow_none does not reach derived copies - outside C03/C04's claims -
            #  so it is only set on cells that nobody derives)
            if draw(st.integers(0, 4)) == 0:
                extra.append(["set_allow_none", list(s.path), n, draw(st.sampled_from([True, False, None]))])
    # exotic reference values (names v0.. are never read by formulas)
    for j in range(draw(st.integers(0, 4))):
        where = draw(st.sampled_from([[]] + [list(s.path) for s in spaces]))
        mode = draw(st.sampled_from([None, None, "auto", "absolute"])) if where else None
        extra.append(["set_ref", where, "v%d" % j, ["py", draw(st.sampled_from(PY_VALUES))], mode])
    # data with an IOSpec (written to its own file)
    for j in range(draw(st.integers(0, 2)) if draw(st.booleans()) else 0):
        where = draw(st.sampled_from([[]] + [list(s.path) for s in spaces]))
        extra.append(["new_pandas", where, "pd%d" % j, draw(st.sampled_from(["data/pd%d.csv" % j, "book%d.xlsx" % j])),
                      draw(st.sampled_from(["df", "ser"]))])
    # object-valued references to spaces, incl. relative mode inside the tree and model-level ones
    for j in range(draw(st.integers(0, 2))):
        s = draw(st.sampled_from(spaces))
        tgt = draw(st.sampled_from(spaces))
        inside = tgt.path[:len(s.path)] == s.path
        mode = draw(st.sampled_from(["auto", "absolute"] + (["relative"] if inside else [])))
        if not G.subs(s) or mode == "absolute" or tgt is s:
            extra.append(["set_ref", list(s.path), "w%d" % j, ["o", list(tgt.path)], mode])
    if draw(st.integers(0, 3)) == 0:
        tgt = draw(st.sampled_from(spaces))
        extra.append(["set_ref", [], "wm", ["o", list(tgt.path)], None])
    # a cells whose name extends another cells' name, holding inputs (file names in _data/ share a prefix)
    for s in spaces:
        own = [n for n in s.cells if gen.rank_of(n) >= 0 and s.cells[n].cached]
        if own and draw(st.integers(0, 2)) == 0:
            n = draw(st.sampled_from(own))
            longer = n + draw(st.sampled_from(["_adj", "x", "0"]))
            cdef = {"name": longer, "params": [["x", None]], "expr": ["var", "x"], "cached": True, "allow_none": None,
                    "form": "lambda", "tick": False}
            if G.find_cells(s, longer) is None:
                op = ["new_cells", list(s.path), cdef]
                extra.append(op)
                apply_ref(G, op)
                extra.append(["set_value", list(s.path), longer, [1], 41])
    # inputs
    sids = [s.path for s in spaces] + gen.item_sids(G, 2)
    for _ in range(draw(st.integers(0, 4))):
        sid = draw(st.sampled_from(sids))
        try:
            ctx = R.Evaluator(G).ctx_of(sid)
        except Exception:
            continue
        cs = [n for n in G.cells_names(ctx.base) if G.find_cells(ctx.base, n)[1].cached]
        if not cs:
            continue
        n = draw(st.sampled_from(cs))
        params = G.find_cells(ctx.base, n)[1].params
        key = [draw(st.sampled_from([0, 1, 2, "k", -3])) for _ in params]
        extra.append(["set_value", gen._jsid(sid), n, key, draw(st.sampled_from([5, "text", 2.5, -1]))])
    rewrite = draw(st.sampled_from([None, None, {"backup": True}, {"backup": False}]))
    opts = {"log_input": draw(st.integers(0, 3)) == 0,
            "compression": draw(st.sampled_from(["deflated", "deflated", "stored"]))}
    return {"ops": ops + extra, "zip": use_zip, "chain": chain, "rewrite": rewrite, "opts": opts}


def strategy(tier):
    return cases()


# ----------------------------------------------------------------------------

def file_listing(root):
    out = {}
    for dp, dn, fn in os.walk(root):
        for f in fn:
            p = os.path.join(dp, f)
            out[os.path.relpath(p, root).replace(os.sep, "/")] = p
    return out


def constructs(case):
    kinds = set()
    for op in case["ops"]:
        k = op[0]
        if k == "add_bases" or (k == "new_space" and op[3]):
            kinds.add("base")
        elif k == "set_formula" and op[2]:
            kinds.add("formula")
        elif k == "new_cells" and not op[2].get("cached", True):
            kinds.add("uncached")
        elif k == "set_ref" and op[3][0] == "o":
            kinds.add("objref")
        elif k == "set_ref" and op[3][0] == "py":
            kinds.add("nonliteral")
        elif k == "set_value":
            kinds.add("iteminput" if any(not isinstance(x, str) for x in op[1]) else "input")
        elif k == "set_doc" and op[3] != "plain doc":
            kinds.add("doc")
    return kinds


def run_case(case):
    out = Outcome()
    reset_session()
    root = tempfile.mkdtemp(prefix="vfc04_")
    try:
        return _run(case, out, root)
    finally:
        shutil.rmtree(root, ignore_errors=True)


def _run(case, out, root):
    real = Real("M", hooks=False)
    for op in case["ops"]:
        if op[0] in EDIT_OPS:
            res = real.apply(op)
            if res[0] != "ok":
                out.count("rejected_build_ops")
    cur = real
    orig_desc = model_desc(real.m)
    orig_answers = run_battery(real)
    for gen_i in range(case.get("chain", 1)):
        before = model_desc(cur.m)
        held_before = cur.held()
        path = os.path.join(root, "m%d" % gen_i + (".zip" if case.get("zip") else ""))
        opts = case.get("opts") or {}
        zkw = {"log_input": bool(opts.get("log_input")),
               "compression": zipfile.ZIP_STORED if opts.get("compression") == "stored" else zipfile.ZIP_DEFLATED}
        wkw = {"log_input": bool(opts.get("log_input"))}
        try:
            if case.get("zip"):
                cur.m.zip(path, **zkw)
            else:
                cur.m.write(path, **wkw)
        except Exception as exc:
            # a rejected save: C14's business (no residue); nothing to compare here
            out.label("write_rejected:" + type(exc).__name__)
            out.info["write_error"] = repr(exc)
            return out
        # writing alters nothing but the path
        after = model_desc(cur.m)
        r = diff(before, after)
        if r:
            return out.fail("write-changes-model", "writing (generation %d) changed the model: %s" % (gen_i, r))
        if cur.held() != held_before:
            return out.fail("write-changes-values", "writing (generation %d) changed held values" % gen_i)
        # the other container format holds the same files
        other = os.path.join(root, "o%d" % gen_i + ("" if case.get("zip") else ".zip"))
        saved_path = cur.m.path
        try:
            if case.get("zip"):
                cur.m.write(other, **wkw)
            else:
                cur.m.zip(other, **zkw)
        except Exception as exc:
            return out.fail("other-format-rejected", "one container format accepted the model, the other raised %r" % (exc,))
        zpath, dpath = (path, other) if case.get("zip") else (other, path)
        with zipfile.ZipFile(zpath) as z:
            members = {n for n in z.namelist() if not n.endswith("/")}
            files = file_listing(dpath)
            if members != set(files):
                return out.fail("zip-dir-listing", "zip members %r vs directory files %r" % (
                    sorted(members - set(files)), sorted(set(files) - members)))
            for n in sorted(members):
                if n.endswith(".pickle") or n.endswith(".xlsx"):
                    continue        # pickles embed object ids, workbooks time stamps; compared through the loaded models
                with open(files[n], "rb") as f:
                    if z.read(n) != f.read():
                        return out.fail("zip-dir-content", "file %s differs between zip and directory" % n)
        # read back
        try:
            m2 = mx.read_model(path, name="R%d" % gen_i)
        except Exception as exc:
            return out.fail("read-rejected", "model written without error cannot be read back (%s): %r" % (
                "zip" if case.get("zip") else "dir", exc))
        d2 = model_desc(m2)
        r = diff(orig_desc, d2)
        if r:
            return out.fail("round-trip", "generation %d (%s): %s" % (gen_i, "zip" if case.get("zip") else "dir", r))
        new = Real.wrap(m2)
        ans = run_battery(new)
        if ans != orig_answers:
            for (q, a), (_, b) in zip(ans, orig_answers):
                if a != b:
                    return out.fail("round-trip-value", "generation %d: %r answers %r after reading, %r before" % (
                        gen_i, q, a, b))
            return out.fail("round-trip-value", "different batteries")
        cur = new
    rw = case.get("rewrite")
    if rw is not None:
        # the model shrinks (all assigned values cleared) and is saved again ONTO generation 0, with or without
        # backups: what is read back is the current model, and the place holds exactly the files of a fresh save
        real.m.clear_all()
        desc = model_desc(real.m)
        path0 = os.path.join(root, "m0" + (".zip" if case.get("zip") else ""))
        fresh = os.path.join(root, "fresh" + (".zip" if case.get("zip") else ""))
        try:
            if case.get("zip"):
                real.m.zip(path0, backup=rw["backup"])
                real.m.zip(fresh)
            else:
                real.m.write(path0, backup=rw["backup"])
                real.m.write(fresh)
        except Exception as exc:
            return out.fail("rewrite-rejected", "saving the shrunk model again onto generation 0 (backup=%r) raised %r" % (
                rw["backup"], exc))
        if case.get("zip"):
            with zipfile.ZipFile(path0) as z0, zipfile.ZipFile(fresh) as z1:
                l0 = {n for n in z0.namelist() if not n.endswith("/")}
                l1 = {n for n in z1.namelist() if not n.endswith("/")}
        else:
            l0, l1 = set(file_listing(path0)), set(file_listing(fresh))
        if l0 != l1:
            return out.fail("rewrite-listing", "after saving again onto an existing save (backup=%r) the place holds %r "
                                               "besides / lacks %r compared with a fresh save" % (
                                                   rw["backup"], sorted(l0 - l1), sorted(l1 - l0)))
        try:
            m3 = mx.read_model(path0, name="RW")
        except Exception as exc:
            return out.fail("read-rejected", "model saved again onto an existing save (backup=%r) cannot be read back: %r" % (
                rw["backup"], exc))
        r = diff(desc, model_desc(m3))
        if r:
            return out.fail("round-trip", "after saving again onto an existing save (backup=%r): %s" % (rw["backup"], r))
        out.label("rewrite")
    kinds = constructs(case)
    out.nontrivial = len(kinds) >= 3
    for k in kinds:
        out.label(k)
    out.label("zip" if case.get("zip") else "dir")
    return out


# ----------------------------------------------------------------------------
# known-finding signatures

def sig_literal_refmode(case, failure):
    return failure["oracle"] == "round-trip" and ".refmode" in failure["detail"]


def _derived_input_ops(case):
    """set_value operations that target a cells which is derived in the addressed static space"""
    rm = R.RModel()
    hits = []
    for op in case["ops"]:
        if op[0] == "set_value" and all(isinstance(x, str) for x in op[1]):
            try:
                sp = rm.space(tuple(op[1]))
                found = rm.find_cells(sp, op[2])
                if found is not None and found[0] is not sp:
                    hits.append(op)
            except Exception:
                pass
        try:
            apply_ref(rm, op)
        except Exception:
            pass
    return hits


def sig_derived_cells_input(case, failure):
    """KF-C04-1: the only difference is the inputs list of a cells that is derived where it was assigned"""
    if failure["oracle"] not in ("round-trip", "round-trip-value"):
        return False
    hits = _derived_input_ops(case)
    if not hits:
        return False
    if failure["oracle"] == "round-trip":
        return ".inputs:" in failure["detail"] and any(
            (".spaces." + ".spaces.".join(op[1]) + ".cells." + op[2] + ".inputs") in failure["detail"] for op in hits)
    return True     # a value computed from such a lost input


SIGNATURES = {"literal_refmode": sig_literal_refmode, "derived_cells_input": sig_derived_cells_input}
