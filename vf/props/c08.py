"""C08 - reported dependencies are exactly the calls made; graph and cache agree.

Generator: the histories of C05 (evaluations with failures at every element,
repairs) and of C06 (value edits, clears, reference changes), on models with
uncached cells and ItemSpace calls inside formulas.
Oracle (R + I): after every step, for every element that holds a computed
value, preds() equals the direct callees recorded by the reference interpreter
when the element was computed (calls through uncached cells contribute the
cached elements reached plus the uncached cells object), succs() is the exact
inverse, precedents() contains every reference the element's own formula read
(by name or attribute path) and only references its formula mentions; the
keyed nodes of model.tracegraph are exactly the held elements, the graph is
acyclic and mentions no deleted object.
"""

import networkx as nx
from hypothesis import strategies as st

import modelx as mx
from modelx.core.cells import Cells

from .. import gen, ref as R
from ..drive import Real, apply_ref, reset_session, take_ticks, tup, plain_real
from ..expr import walk
from ..memo import MemoSim
from ..runner import Outcome
from . import c05, c06
from .c06 import live_held, elem_of, ensure_spaces, create_spaces

ID = "C08"
LEVEL = "exploration"
DESIGN_REF = "DESIGN.md section 6, C08"
RULE = ("histories = C05 fault plans (every element fails in turn, repair, retry) and C06 value-edit histories, over "
        "generated DAG models with uncached cells and ItemSpace calls; non-trivial = some held element was reached by a "
        "cache hit inside another formula after an intervening failure or edit (so edges had to be added to an "
        "existing node after the graph had been partly torn down); distinct = case hash")
ASSUMPTIONS = [
    "expected edges come from the reference call trees (vf/ref.py) folded by vf/memo.py",
    "orphan object nodes of uncached cells left by a failed caller are tolerated (C08 speaks of elements)",
    "references are compared by name; object-valued references are excluded from precedents() by documentation",
]
SIGNATURES = {}


def plan(tier):
    if tier == "quick":
        return {"shards": 8, "examples": 250, "wall": 100}
    return {"shards": 16, "examples": 4000, "wall": 2400}


def strategy(tier):
    return st.one_of(c05.plans(), c06.cases(), c05.plans())


# ----------------------------------------------------------------------------

def node_key(n):
    """(sid, name|None, args|None) of a node object returned by preds()/succs()"""
    obj = n.obj
    if isinstance(obj, Cells):
        return (obj.parent._idtuple[1:], obj.name, n.args)
    return (obj._idtuple[1:], None, n.args)


def impl_key(node):
    impl = node[0]
    iface = impl.interface
    if isinstance(iface, Cells):
        sid = iface.parent._idtuple[1:]
        return (sid, iface.name) + ((node[1],) if len(node) > 1 else (None,))
    return (iface._idtuple[1:], None) + ((node[1],) if len(node) > 1 else (None,))


def mentioned_names(expr):
    out = set()
    for n in walk(expr):
        if n[0] == "name":
            out.add(n[1])
        elif n[0] == "attr":
            out.add(n[2])
    return out


def check_graph(real, rm, sim, when):
    m = real.m
    g = m.tracegraph
    # 1. nodes == held elements
    keyed = set()
    for node in g.nodes:
        try:
            if not node[0].interface._is_valid():
                return ("deleted-object-in-graph", "%s: trace graph mentions a deleted object %r" % (when, node))
            k = impl_key(node)
        except Exception as exc:
            return ("deleted-object-in-graph", "%s: node %r cannot be identified (%s)" % (when, node, exc))
        if len(node) > 1:
            keyed.add(k)
    if keyed != sim.held:
        return ("graph-nodes", "%s: keyed nodes of model.tracegraph differ from the elements holding values: only in "
                               "graph %r, only held %r" % (when, sorted(keyed - sim.held, key=repr)[:5],
                                                           sorted(sim.held - keyed, key=repr)[:5]))
    if not nx.is_directed_acyclic_graph(g):
        return ("graph-cycle", "%s: model.tracegraph has a cycle" % when)
    # 2. preds / succs / precedents per held computed element
    for e in sorted(sim.held, key=repr):
        sid, name, key = e
        try:
            owner = real.ctx(sid)
            obj = owner.cells[name] if name is not None else owner
        except Exception as exc:
            return ("held-unreachable", "%s: held element %r cannot be addressed: %s" % (when, e, exc))
        got_p = set()
        for n in obj.preds(*key):
            got_p.add(node_key(n))
        want_p = set(sim.pred.get(e, set())) | {(u[0], u[1], None) for u in sim.upred.get(e, set())}
        if e in sim.inputs:
            want_p = set()
        if got_p != want_p:
            return ("preds", "%s: %s.preds%r = %r, calls made when it was computed %r" % (
                when, fmt(e), key, sorted(got_p, key=repr), sorted(want_p, key=repr)))
        got_s = {node_key(n) for n in obj.succs(*key)}
        want_s = set(sim.succ.get(e, set()))
        if got_s != want_s:
            return ("succs", "%s: %s.succs%r = %r, elements computed from it %r" % (
                when, fmt(e), key, sorted(got_s, key=repr), sorted(want_s, key=repr)))
        if name is None or e in sim.inputs:
            continue
        # precedents: references
        try:
            prec = obj.precedents(*key)
        except Exception as exc:
            return ("precedents-raised", "%s: %s.precedents%r raised %r" % (when, fmt(e), key, exc))
        refnames = set()
        for n in prec:
            if type(n).__name__ == "ReferenceNode":
                refnames.add(n.obj.name)
        ctx = R.Evaluator(rm).ctx_of(sid)
        cdef = rm.find_cells(ctx.base, name)[1]
        read = {r[1] for r in sim.refreads.get(e, set())}
        # parameters of ItemSpaces and object-valued references are not listed
        read = {n for n in read if n[0] in "rgu"}
        if not read <= refnames:
            return ("precedents-missing", "%s: %s.precedents%r lists references %r but its formula read %r" % (
                when, fmt(e), key, sorted(refnames), sorted(read)))
        extra = {n for n in refnames if not n.startswith("_")} - mentioned_names(cdef.expr)
        if extra:
            return ("precedents-extra", "%s: %s.precedents%r lists %r which its formula does not mention" % (
                when, fmt(e), key, sorted(extra)))
    return None


def fmt(e):
    return ".".join(map(str, e[0])) + ("." + e[1] if e[1] else "")


def run_case(case):
    out = Outcome()
    reset_session()
    real = Real()
    rm = R.RModel()
    sim = MemoSim()
    disturbed = False       # a failure or an edit has happened
    nt = False
    for i, op in enumerate(case["ops"]):
        k = op[0]
        if k == "formula_error":
            mx.use_formula_error(bool(op[1]))
            continue
        if k == "recalc":
            continue        # recalc stays off here: C06 covers it
        if k == "arm":
            real.apply(op)
            apply_ref(rm, op)
            continue
        if k in ("new_space", "new_cells", "set_formula", "add_bases"):
            res = real.apply(op)
            if res[0] == "ok":
                apply_ref(rm, op)
            continue
        if k in ("set_ref", "del_ref"):
            res = real.apply(op)
            if res[0] == "ok":
                apply_ref(rm, op)
                after = live_held(real)
                sim.discard_many(list(sim.held - set(after)))
                if sim.held != set(after):
                    out.discard = True
                    return out
                # assigned values inside ItemSpaces die with the instance
                for (s_, n_), d_ in list(rm.inputs.items()):
                    for key_ in list(d_):
                        if (s_, n_, key_) not in after:
                            del d_[key_]
                disturbed = True
        elif k == "clear_all_model":
            real.apply(op)
            apply_ref(rm, op)
            sim.discard_many(list(sim.held))
            disturbed = True
        elif k == "eval":
            sid = tup(op[1])
            try:
                eo = elem_of(rm, sid, op[2], tup(op[3]), op[4])
                if eo is None:
                    continue
                exp = R.evaluate(rm, sid, op[2], tup(op[3]), op[4], held=sim.memory())
            except R.Budget:
                out.discard = True
                return out
            except (KeyError, TypeError):
                continue
            res = real.apply(op)
            got = ("ok", plain_real(res[1])) if res[0] == "ok" else res
            if exp[0] == "ok" and got != ("ok", exp[1]):
                return out.fail("value", "%r: modelx %r, reference %r" % (op, got, exp[:2]), i)
            if exp[0] != "ok":
                if res[0] != "err":
                    return out.fail("no-error", "%r: modelx %r, reference %r" % (op, got, exp[:2]), i)
                disturbed = True
            create_spaces(sim, rm, sid)     # (what the parameter formulas of new instances run is linked, too)
            h0 = sim.hits
            sim.simulate(exp[2], eo[0])
            if disturbed and sim.hits > h0 and exp[0] == "ok":
                nt = True
        elif k in ("set_value", "clear_at", "clear", "clear_all", "clear_all_space"):
            sid = tup(op[1]) if k != "clear_all_space" else None
            target = None
            if k in ("set_value", "clear_at"):
                try:
                    eo = elem_of(rm, sid, op[2], tup(op[3]))
                except (KeyError, TypeError):
                    continue
                if eo is None or (k == "set_value" and not eo[1].cached):
                    continue
                target = eo[0]
            res = real.apply(op)
            if res[0] != "ok":
                out.discard = True
                return out
            if sid is not None:
                create_spaces(sim, rm, sid)
            if k == "set_value":
                gone = sim.assign(target, op[4]); apply_ref(rm, op)
            elif k == "clear_at":
                gone = sim.discard(target); apply_ref(rm, op)
            elif k == "clear":
                gone = sim.discard_many([e for e in sim.held if e[0] == sid and e[1] == op[2] and e not in sim.inputs])
            elif k == "clear_all":
                gone = sim.discard_many([e for e in sim.held if e[0] == sid and e[1] == op[2]]); apply_ref(rm, op)
            else:
                path = tuple(op[1])
                gone = sim.discard_many([e for e in sim.held if tuple(e[0][:len(path)]) == path]); apply_ref(rm, op)
            # (a value assigned inside an instance that the edit discarded went with the instance: see C06)
            for g in gone:
                if g[1] is not None and not all(isinstance(x, str) for x in g[0]) and not (k == "set_value" and g == target):
                    rm.inputs.get((g[0], g[1]), {}).pop(g[2], None)
            disturbed = True
        else:
            continue
        f = check_graph(real, rm, sim, "after %r" % (op,))
        out.count("graph_comparisons")
        if f:
            return out.fail(f[0], f[1], i)
    out.nontrivial = nt
    return out
