"""C07 - ItemSpaces are parametrised, isolated, identity-stable instances of their base.

Generator: models whose spaces carry parameter formulas (1-2 parameters with
defaults; returning None, extra references, or another base space), with child
spaces (also parametrised: nested instances) and cells whose formulas read the
parameters and the returned references; histories interleave instance
evaluations in every argument spelling (positional, keyword, defaults omitted,
subscription with scalar / tuple), assignments inside instances, edits of the base
definitions and handle captures.
Oracle: (I) spellings that bind equally give the SAME object, and the number of
entries of ``itemspaces`` equals the number of distinct bound argument tuples;
(R) every cells of an instance returns the reference value computed with the
parameters and returned references bound as names and sibling calls staying
inside the instance, and the execution log (which shows the instance each
formula ran in) equals the predicted one; isolation: the set of held values
after each step is exactly the predicted one (nothing held in another instance
changes); after a base edit instances answer like the reference built from the
current definitions; an old handle either raises DeletedObjectError or is the
instance now registered for its arguments and answers like it.
"""

from hypothesis import strategies as st

import modelx as mx
from modelx.core.errors import DeletedObjectError

from .. import gen, ref as R
from ..drive import Real, apply_ref, reset_session, take_ticks, tup, plain_real, EDIT_OPS
from ..memo import MemoSim
from ..runner import Outcome
from .c06 import live_held, elem_of, ensure_spaces, compare_held

ID = "C07"
LEVEL = "exploration"
DESIGN_REF = "DESIGN.md section 6, C07"
RULE = ("history = generated model with parameter formulas + 8-24 steps (instance evaluations in varied spellings, "
        "assignments inside instances, base edits, handle captures); non-trivial = >=2 instances of one space with "
        "different arguments hold values and a base edit happens between two evaluations of the same instance; "
        "distinct = case hash")
ASSUMPTIONS = [
    "reference semantics of instances in vf/ref.py (parameters > returned references > base references > model-level)",
    "after an edit of the base the harness resynchronises which values are held from the live model (exact invalidation "
    "is C02/C06's business) and then compares values against the reference",
]
SIGNATURES = {}

FEAT = gen.Feat(inherit=True, items=True, item_base=True, uncached=True, objrefs=True, shadow=False, max_top=2,
                max_child=2, max_cells=3, max_rank=4, depth=2, tick=True, allow_none=True)
EDITS = ["set_ref", "set_ref", "set_mref", "set_cells_formula", "override", "new_cells", "del_cells", "rename_cells",
         "set_formula", "add_bases", "remove_bases", "set_cached"]


def plan(tier):
    if tier == "quick":
        return {"shards": 8, "examples": 400, "wall": 100}
    return {"shards": 16, "examples": 2500, "wall": 2400}


def gen_spelling(draw, params, values):
    """a spelling dict for calling a parametrised space so that it binds to ``values``"""
    n = len(params)
    # trailing arguments equal to their defaults may be omitted
    keep = n
    while keep > 0 and params[keep - 1][1] is not None and params[keep - 1][1] == values[keep - 1] \
            and draw(st.booleans()):
        keep -= 1
    vals = list(values[:keep])
    kind = draw(st.sampled_from(["pos", "kw", "mixed", "sub"]))
    if kind == "sub" and keep == n and n >= 1:
        return {"a": vals, "sub": True}
    if kind == "kw" and vals:
        order = draw(st.permutations(list(range(len(vals)))))
        return {"a": [], "k": {params[i][0]: vals[i] for i in order}}
    if kind == "mixed" and len(vals) >= 2:
        return {"a": vals[:1], "k": {params[i][0]: vals[i] for i in range(1, len(vals))}}
    return {"a": vals}


@st.composite
def histories(draw):
    ops, G = gen.gen_model_ops(draw, FEAT)
    par = [s for s in G.all_spaces() if s.formula is not None]
    if not par:
        s = G.all_spaces()[0]
        op = ["set_formula", list(s.path), gen.gen_formula_spec(draw, G, s, FEAT)]
        ops.append(op)
        apply_ref(G, op)
    hist = []
    for _ in range(draw(st.integers(8, 24))):
        par = [s for s in G.all_spaces() if s.formula is not None]
        k = draw(st.integers(0, 11))
        if k <= 6 and par:
            s = draw(st.sampled_from(par))
            params = s.formula["params"]
            values = [draw(st.integers(0, 2)) for _ in params]
            for j, (p, d) in enumerate(params):
                if d is not None and draw(st.booleans()):
                    values[j] = d
            sid = list(s.path) + [gen_spelling(draw, params, values)]
            canon = tuple(s.path) + (tuple(values),)
            # optionally descend into a (dynamic) child, possibly parametrised itself
            try:
                ctx = R.Evaluator(G).ctx_of(canon)
            except Exception:
                continue
            base = ctx.base
            if base.children and draw(st.integers(0, 2)) == 0:
                cn = draw(st.sampled_from(sorted(base.children)))
                ch = base.children[cn]
                sid.append(cn)
                canon = canon + (cn,)
                base = ch
                if ch.formula is not None and draw(st.booleans()):
                    vals2 = [draw(st.integers(0, 1)) for _ in ch.formula["params"]]
                    sid.append(gen_spelling(draw, ch.formula["params"], vals2))
                    canon = canon + (tuple(vals2),)
                    try:
                        base = R.Evaluator(G).ctx_of(canon).base
                    except Exception:
                        continue
            names = G.cells_names(base)
            if not names:
                hist.append(["touch", sid, gen._jsid(canon)])
                continue
            n = draw(st.sampled_from(names))
            cdef = G.find_cells(base, n)[1]
            args = [draw(st.integers(0, 2)) for _ in cdef.params]
            if k == 6 and cdef.cached:
                op = ["iassign", sid, gen._jsid(canon), n, args, draw(st.integers(100, 150))]
                hist.append(op)
                apply_ref(G, ["set_value", gen._jsid(canon), n, args, op[5]])
            elif k == 5:
                hist.append(["capture", sid, gen._jsid(canon)])
                if sum(1 for x in canon if not isinstance(x, str)) >= 2 and draw(st.booleans()):
                    # a handle to an instance inside an instance; the outer space then gets a parameter formula
                    # under which the same call binds other arguments (a further parameter / another default)
                    f = s.formula
                    ps = [list(x) for x in f["params"]]
                    if len(ps) == 1:
                        ps.append(["q", draw(st.integers(0, 2))])
                    else:
                        ps[1][1] = (ps[1][1] or 0) + 1
                    op = ["set_formula", list(s.path), dict(f, params=ps)]
                    if gen.apply_edit_to_picture(G, op):
                        hist.append(op)
            else:
                hist.append(["ieval", sid, gen._jsid(canon), n, args])
        else:
            op = gen.gen_edit(draw, G, FEAT, kinds=EDITS)
            if op is not None and gen.apply_edit_to_picture(G, op):
                hist.append(op)
    return {"ops": ops + hist}


def strategy(tier):
    return histories()


def enumerate_cases(tier, seed):
    # instances built on a space that was never looked at (no cells, namespace never read): every kind of change
    # that reaches that space - directly or through its own base - shows in the instance
    for chosen in ("formula_base", "own"):
        for edit in ("del_base_ref", "set_base_ref", "new_base_ref", "remove_bases", "del_own_ref", "set_own_ref"):
            for touched in (False, True):
                yield {"kind": "bare_base", "chosen": chosen, "edit": edit, "touched": touched, "ops": []}


def run_bare_base(case, out):
    reset_session()
    m = mx.new_model("B")
    A = m.new_space("A")
    A.k = 1
    B = m.new_space("B", bases=A)
    B.own = 10
    if case["chosen"] == "formula_base":
        P = m.new_space("P", formula="lambda x: {'base': Base}")
        P.Base = B
    else:
        P = B
        B.formula = "lambda x: None"
    if case["touched"]:
        B.k             # the namespace of the base space has been read once
    h = P[1]
    edit = case["edit"]
    if edit == "del_base_ref":
        del A.k
    elif edit == "set_base_ref":
        A.k = 5
    elif edit == "new_base_ref":
        A.j = 7
    elif edit == "remove_bases":
        B.remove_bases(A)
    elif edit == "del_own_ref":
        del B.own
    else:
        B.own = 11
    inst = P[1]
    for n in ("k", "j", "own"):
        want = (n in B.refs, B.refs[n] if n in B.refs else None)
        got = (n in inst.refs, inst.refs[n] if n in inst.refs else None)
        if got != want:
            return out.fail("instance-reference", "%s base, %s, base %s: reference %r in the instance: %r, in the "
                            "space it is built on: %r" % (case["chosen"], edit, "read before" if case["touched"] else
                                                          "never read", n, got, want))
    try:
        ok = h is inst or not h._is_valid()
    except Exception:
        ok = True
    if not ok:
        return out.fail("stale-handle", "the earlier handle still works but is not the instance registered now")
    out.nontrivial = True
    out.label("bare_base")
    return out


# ----------------------------------------------------------------------------

def tick_id(rm, elem):
    """the id a formula reports when it runs: the name written into its tick call survives renames"""
    try:
        ctx = R.Evaluator(rm).ctx_of(elem[0])
        return (elem[0], rm.find_cells(ctx.base, elem[1])[1].tickname, elem[2])
    except Exception:
        return elem


def item_keys(real, rm):
    """{static path: set of argument tuples} of existing ItemSpaces directly under static spaces"""
    out = {}
    for sp in real.all_static_spaces():
        ks = set(sp._impl.param_spaces.keys())
        if ks:
            out[sp._idtuple[1:]] = ks
    return out


def run_case(case):
    out = Outcome()
    if case.get("kind") == "bare_base":
        return run_bare_base(case, out)
    reset_session()
    real = Real()
    rm = R.RModel()
    sim = MemoSim()
    handles = []                # (canonical sid, object)
    inst_evals = {}             # canonical root sid -> count of evaluations
    edited_between = False
    nt = False
    pending_edit = set()
    for i, op in enumerate(case["ops"]):
        k = op[0]
        if k in EDIT_OPS:
            res = real.apply(op)
            if res[0] == "ok":
                apply_ref(rm, op)
                after = live_held(real)
                sim.discard_many(list(sim.held - set(after)))
                if sim.held != set(after):
                    return out.fail("held-set", "after base edit %r values appeared that were not there: %r" % (
                        op, sorted(set(after) - sim.held, key=repr)[:4]), i)
                for (s_, n_), d_ in list(rm.inputs.items()):
                    for key_ in list(d_):
                        if (s_, n_, key_) not in after:
                            del d_[key_]
                pending_edit = set(inst_evals)
            continue
        sid_spelled, canon = op[1], tup(op[2])
        # ---- identity: every spelling gives the object of the canonical spelling ----------
        try:
            ev = R.Evaluator(rm)
            ctx = ev.ctx_of(canon)
            ref_ok = True
        except Exception as exc:
            ref_ok = False
            ref_exc = type(exc).__name__
        take_ticks()
        try:
            obj = real.ctx(sid_spelled)
            real_exc = None
        except mx.core.errors.FormulaError:
            real_exc = type(mx.get_error()).__name__
        except Exception as exc:
            real_exc = type(exc).__name__
        take_ticks()
        if not ref_ok or real_exc:
            if ref_ok != (real_exc is None):
                return out.fail("instance-creation", "%r: modelx %s, reference %s" % (
                    sid_spelled, real_exc or "created the instance", "creates it" if ref_ok else "raises " + ref_exc), i)
            # failed creations leave nothing behind (C05); resynchronise
            after = live_held(real)
            sim.discard_many(list(sim.held - set(after)))
            continue
        try:
            obj2 = real.ctx(list(canon))
        except Exception as exc:
            return out.fail("instance-creation", "canonical spelling %r raised %r" % (canon, exc), i)
        if obj is not obj2:
            return out.fail("identity", "spelling %r and positional arguments %r give different objects" % (
                sid_spelled, canon), i)
        ensure_spaces(sim, rm, canon)
        # the instance's creation is itself an evaluation of the space element(s)
        for j, part in enumerate(canon):
            if not isinstance(part, str):
                try:
                    tr = R.Evaluator(rm)
                    tr.item_ctx(tr.ctx_of(canon[:j]), tuple(part))
                    sim.simulate(tr.trace, (tuple(canon[:j]), None, tuple(part)))
                except Exception:
                    pass
        root = tuple(canon[:next(j for j, p in enumerate(canon) if not isinstance(p, str)) + 1])
        if k == "touch":
            pass
        elif k == "capture":
            handles.append((canon, obj))
        elif k == "ieval":
            name, args = op[3], tup(op[4])
            try:
                if elem_of(rm, canon, name, args) is None:
                    continue        # the cells was deleted or renamed by an earlier edit
            except (TypeError, KeyError):
                continue
            try:
                exp = R.evaluate(rm, canon, name, args, held=sim.memory())
            except R.Budget:
                out.discard = True
                return out
            take_ticks()
            res = real.apply(["eval", list(canon), name, list(args), None, "()"])
            ticks = take_ticks()
            got = ("ok", plain_real(res[1])) if res[0] == "ok" else res
            if exp[0] == "ok":
                if got != ("ok", exp[1]):
                    return out.fail("instance-value", "%s.%s%r in instance %r: modelx %r, reference %r" % (
                        ".".join(map(str, canon)), name, args, canon, got, exp[:2]), i)
                eo = elem_of(rm, canon, name, args)
                pred = sim.simulate(exp[2], eo[0])
                pred = [tick_id(rm, e) for e in pred]
                if ticks != pred:
                    return out.fail("execution-log", "%r: formulas ran in %r, expected %r" % (op, ticks, pred), i)
            else:
                if got[0] != "err" or got[1] != exp[1]:
                    return out.fail("instance-error-kind", "%r: modelx %r, reference %r" % (op, got, exp[:2]), i)
                after = live_held(real)
                sim.simulate(exp[2], (canon, name, args))
                sim.discard_many(list(sim.held - set(after)))
            inst_evals[root] = inst_evals.get(root, 0) + 1
            if root in pending_edit and inst_evals[root] >= 2:
                roots_with_values = {e[0][:len(root)] for e in sim.held if e[1] is not None and len(e[0]) >= len(root)
                                     and not isinstance(e[0][len(root) - 1], str)}
                same_space = {r for r in roots_with_values if r[:-1] == root[:-1]}
                if len(same_space) >= 2:
                    nt = True
        elif k == "iassign":
            name, args, value = op[3], tup(op[4]), op[5]
            try:
                eo = elem_of(rm, canon, name, args)
            except (TypeError, KeyError):
                continue            # the cells of that name has other parameters now (an earlier edit)
            if eo is None:
                continue
            res = real.apply(["set_value", list(canon), name, list(args), value])
            if res[0] != "ok":
                return out.fail("instance-assignment", "%r raised %s" % (op, res[1]), i)
            sim.assign(eo[0], value)
            apply_ref(rm, ["set_value", gen._jsid(canon), name, list(args), value])
        # ---- isolation / exactness of what is held --------------------------------------
        f = compare_held(real, sim, rm, "after %r" % (op,))
        if f:
            return out.fail(f[0], f[1], i)
        # ---- itemspaces has one entry per distinct bound argument tuple -------------------
        want_keys = {}
        for e in sim.held:
            if e[1] is None and all(isinstance(x, str) for x in e[0]):
                want_keys.setdefault(e[0], set()).add(e[2])
        got_keys = item_keys(real, rm)
        if got_keys != want_keys:
            return out.fail("itemspaces", "itemspaces keys %r, instances created by the history %r" % (got_keys, want_keys), i)
        # ---- old handles ----------------------------------------------------------------------
        for hc, h in handles:
            try:
                h.name
                alive = True
            except DeletedObjectError:
                alive = False
            except Exception as exc:
                return out.fail("handle-error", "handle to %r raised %r" % (hc, exc), i)
            if alive:
                cur = None
                try:
                    p = real.m
                    ok = True
                    for part in hc:
                        if isinstance(part, str):
                            p = p.spaces[part]
                        else:
                            if tuple(part) not in p._impl.param_spaces:
                                ok = False
                                break
                            p = p._impl.param_spaces[tuple(part)].interface
                    cur = p if ok else None
                except Exception:
                    cur = None
                if cur is not h:
                    return out.fail("stale-handle", "the handle to %r still works but is not the instance registered "
                                                    "for these arguments" % (hc,), i)
    out.nontrivial = nt
    return out
