"""C05 - a failed evaluation leaves a consistent, retryable state.

Part 1 (fault enumeration over generated DAGs): formulas carry harness fault
points ``_fail(tag)``; a history arms a tag with an exception kind (or a
None-result), evaluates, disarms ("repair without an edit") or repairs by an
edit, evaluates again; failures also come from NameError (deleted reference),
arity TypeError and None results.  Every fault tag of every generated model is
armed in turn (positions), with every kind.
Part 2 (depth): chains against set_recursion(k): shorter chains succeed, longer
ones raise DeepReferenceError, retry of shorter ones succeeds; a deep chain
under the default limit is evaluated in a subprocess (interpreter survival).

Oracle: the top-level call raises FormulaError and mx.get_error() is of the
reference's exception kind (the raw exception when formula errors are off);
(R) the set of held elements equals the harness picture: no element on the
failing chain holds a value, elements completed before the failure do and are
correct, everything held before is still held unchanged; the execution log of
the failing run equals the predicted one; call stack / reference stack empty
and not executing; after repair every query returns the reference value and
nothing held executes again.
"""

import os
import subprocess
import sys

from hypothesis import strategies as st

import modelx as mx

from .. import gen, ref as R
from ..drive import Real, apply_ref, reset_session, take_ticks, tup, plain_real, ARMED
from ..memo import MemoSim
from ..runner import Outcome
from .c06 import live_held, elem_of, ensure_spaces

ID = "C05"
LEVEL = "fault_enumeration"
DESIGN_REF = "DESIGN.md section 6, C05"
RULE = ("generated DAG models whose formulas contain fault points f0..f2; for each model every tag is armed in turn with "
        "each kind (ZeroDivisionError, KeyError, ValueError, a custom exception, None result), before/after warm-up "
        "evaluations, followed by disarm-and-retry; plus deleted-reference NameError and repairs by edit; both settings of "
        "use_formula_error; depth cases for set_recursion(k). non-trivial = a failing evaluation whose failure point is "
        ">=2 calls below the query and at least one other element was completed (and must be kept) before the failure; "
        "distinct = case hash")
ASSUMPTIONS = [
    "fault points are exceptions raised by a harness function called from formulas, or a None result",
    "expected holdings come from the reference call trees of the failing evaluation (vf/ref.py, vf/memo.py)",
    "executor internals (callstack, refstack, is_executing) are peeked through getattr and counted as internal peeks",
]
SIGNATURES = {}       # filled in below (sig_attr_path_depth)

FEAT = gen.Feat(items=True, uncached=True, fail=True, max_top=2, max_child=1, max_cells=4, max_rank=5, depth=2,
                tick=True, shadow=False, objrefs=False)
KINDS = ["ZeroDivisionError", "KeyError", "ValueError", "HarnessError", "HarnessAbort", "SharedValueError", "None"]


def plan(tier):
    if tier == "quick":
        return {"shards": 8, "examples": 400, "wall": 100}
    return {"shards": 16, "examples": 5000, "wall": 2400}


@st.composite
def cases(draw):
    ops, G = gen.gen_model_ops(draw, FEAT)
    sids = gen.all_ctx_ids(G) + gen.item_sids(G, 2)
    hist = [["formula_error", draw(st.sampled_from([True, True, False]))]]
    queries = []
    for _ in range(draw(st.integers(3, 7))):
        q = gen.gen_query(draw, G, sids)
        if q:
            q[1] = gen._jsid(tup(q[1]))
            queries.append(q)
    if not queries:
        return {"ops": ops}
    # warm-up: some sub-DAG is already held
    for q in queries[:draw(st.integers(0, len(queries)))]:
        hist.append(q)
    # every tag in turn is the failure point
    tags = draw(st.permutations(["f0", "f1", "f2"]))
    for tag in tags:
        kind = draw(st.sampled_from(KINDS))
        hist.append(["arm", tag, kind])
        for q in draw(st.permutations(queries))[:draw(st.integers(1, len(queries)))]:
            hist.append(q)
        if draw(st.integers(0, 3)) == 0:
            # a second failure on top of the first one
            hist.append(["arm", draw(st.sampled_from(["f0", "f1", "f2"])), draw(st.sampled_from(KINDS))])
            hist.append(draw(st.sampled_from(queries)))
        hist.append(["arm", tag, None])
        if draw(st.booleans()):
            hist.append(["arm", "f0", None]); hist.append(["arm", "f1", None]); hist.append(["arm", "f2", None])
        for q in draw(st.permutations(queries))[:draw(st.integers(1, len(queries)))]:
            hist.append(q)
    # failure by a deleted reference, repaired by an edit
    refs = [(s.path, n) for s in G.all_spaces() for n in s.refs if n[0] == "r"]
    if refs and draw(st.booleans()):
        p, n = draw(st.sampled_from(refs))
        hist.append(["del_ref", list(p), n])
        for q in queries[:3]:
            hist.append(q)
        hist.append(["set_ref", list(p), n, ["v", draw(st.integers(0, 9))], None])
        for q in queries[:3]:
            hist.append(q)
    return {"ops": ops + hist}


@st.composite
def plans(draw):
    """every element reachable from the top query is the failure point in turn"""
    ops, G, info = gen.gen_dag_model(draw, none_points=True)
    p, name, nparams = info["top"]
    top = ["eval", p, name, [draw(st.integers(0, 2))] * nparams, None, "()"]
    try:
        exp = R.evaluate(G, tuple(p), name, tuple(top[3]), None, budget=30000)
    except R.Budget:
        return {"ops": ops}
    elems = []
    for e in exp[2].entered:
        if e[1] is not None and e not in elems:
            elems.append(e)
    # instances created on the way: their parameter formula is a failure point too
    for sid in exp[2].created:
        e = (tuple(sid[:-1]), None, tuple(sid[-1]))
        if e not in elems:
            elems.append(e)
    hist = [["formula_error", draw(st.sampled_from([True, True, False]))]]
    others = [["eval", list(q), cn, [draw(st.integers(0, 2))] * np_, None, "()"] for q, cn, np_ in info["cells"][:-1]]
    for e in draw(st.permutations(elems)):
        if e[1] is None:
            tag = "PF_" + str(e[2][0])
        else:
            k = int(e[1][1:])
            tag = "F%d_" % k + (str(e[2][0]) if e[2] else "")
        kind = draw(st.sampled_from(KINDS[:6]))
        pre = draw(st.integers(0, 3))
        if pre == 0:
            hist.append(["clear_all_model"])
        elif pre == 1 and others:
            hist.append(["clear_all_model"])
            hist.append(draw(st.sampled_from(others)))      # some sub-DAG is held before the failure
        hist.append(["arm", tag, kind])
        hist.append(top)
        if draw(st.integers(0, 2)) == 0 and others:
            hist.append(draw(st.sampled_from(others)))      # another query while the fault persists
        hist.append(["arm", tag, None])
        hist.append(top)
    # after the failures: the formula of one cells (an uncached one if there is any) is replaced; nothing computed
    # through it may survive, whatever failed before
    if draw(st.booleans()):
        defs = [op for op in ops if op[0] == "new_cells"]
        unc = [op for op in defs if not op[2].get("cached", True)]
        op0 = draw(st.sampled_from(unc if unc and draw(st.integers(0, 3)) else defs))
        new = dict(op0[2], expr=["bin", "+", op0[2]["expr"], ["lit", 1000]])
        new.pop("terms", None)
        if new.get("form") == "deflines":
            new["form"] = "def"
        hist.append(["set_cells_formula", op0[1], new["name"], new])
        hist.append(top)
        for q in others[:3]:
            hist.append(q)
    # the formula recursion limit as the failure: a limit below the depth of the chain, then the default again
    if draw(st.integers(0, 2)) == 0:
        hist += [["clear_all_model"], ["set_recursion", draw(st.integers(1, 3))], top, ["set_recursion", 400], top]
    # None-result fault points
    for k in range(len(info["cells"])):
        if draw(st.integers(0, 3)) == 0:
            hist += [["clear_all_model"], ["arm", "N%d" % k, "None"], top, ["arm", "N%d" % k, None], top]
    return {"ops": ops + hist}


def strategy(tier):
    return st.one_of(plans(), plans(), cases())


def enumerate_cases(tier, seed):
    for k in (50, 500) + ((5000,) if tier == "thorough" else ()):
        yield {"kind": "depth", "k": k, "ops": []}
    # the limit survives the facilities that swap the call stack (stack tracing, action generation)
    for via in ("stacktrace", "trace_stack", "actions"):
        yield {"kind": "depth", "k": 50, "via": via, "ops": []}
    yield {"kind": "survival", "n": 20000 if tier == "quick" else 95000, "ops": []}
    # chains far below the configured limit through every way a formula can reach the next cells
    for path in ("name", "ref", "space_attr", "model_attr"):
        for n in (3000,) + ((30000,) if tier == "thorough" else ()):
            yield {"kind": "depth_path", "path": path, "n": n, "ops": []}


# ----------------------------------------------------------------------------

def peek_executor():
    ex = mx.core.mxsys.executor
    bad = []
    try:
        if len(ex.callstack):
            bad.append("callstack has %d entries" % len(ex.callstack))
        if ex.callstack.counter:
            bad.append("callstack.counter=%r" % ex.callstack.counter)
        if len(ex.refstack):
            bad.append("refstack has %d entries" % len(ex.refstack))
        if ex.is_executing:
            bad.append("is_executing is still True")
        if len(ex.callstack.idxstack):
            bad.append("idxstack has %d entries" % len(ex.callstack.idxstack))
    except AttributeError:
        return None
    return bad


def run_depth(case, out):
    reset_session()
    k = case["k"]
    m = mx.new_model("D")
    s = m.new_space("S")
    s.new_cells("c", "lambda x: c(x - 1) + 1 if x > 0 else 0")
    mx.set_recursion(k)
    try:
        via = case.get("via")
        if via == "stacktrace":
            mx.start_stacktrace()
            s.c(2)
            mx.stop_stacktrace()
        elif via == "trace_stack":
            with mx.trace_stack():
                s.c(2)
        elif via == "actions":
            m.generate_actions([s.c.node(2)])
        if via:
            s.c.clear()
            out.label("depth_after_" + via)
        for n in (1, k // 2, k - 1):
            try:
                v = s.c(n)
            except Exception as exc:
                return out.fail("depth-short-chain-failed", "set_recursion(%d): chain of %d elements raised %s" % (
                    k, n + 1, type(mx.get_error() or exc).__name__))
            if v != n:
                return out.fail("depth-value", "c(%d) = %r" % (n, v))
            s.c.clear()
        for n in (k + 2, 2 * k):
            try:
                s.c(n)
                return out.fail("depth-not-limited", "set_recursion(%d): chain of %d elements did not raise" % (k, n + 1))
            except mx.core.errors.FormulaError:
                if type(mx.get_error()).__name__ != "DeepReferenceError":
                    return out.fail("depth-error-kind", "expected DeepReferenceError, got %r" % (mx.get_error(),))
            bad = peek_executor()
            if bad:
                return out.fail("executor-not-unwound", "; ".join(bad))
            held = dict(s.c)
            if held:
                return out.fail("depth-partial-values", "after DeepReferenceError %d elements hold values" % len(held))
            # retry of a shorter chain
            if s.c(k // 2) != k // 2:
                return out.fail("depth-retry", "retry after DeepReferenceError gave a wrong value")
            s.c.clear()
    finally:
        mx.set_recursion(400)
    out.nontrivial = True
    out.label("depth")
    out.count("depth_probes", 6)
    return out


def run_survival(case, out):
    n = case["n"]
    code = ("import modelx as mx\n"
            "m = mx.new_model(); s = m.new_space('S')\n"
            "s.new_cells('c', 'lambda x: c(x - 1) + 1 if x > 0 else 0')\n"
            "assert s.c(%d) == %d\n"
            "s.new_cells('u', 'lambda x: u(x - 1) + 1 if x > 0 else 0', is_cached=False)\n"
            "assert s.u(%d) == %d\n"
            "print('survived')\n" % (n, n, n // 2, n // 2))
    p = subprocess.run([sys.executable, "-c", code], capture_output=True, text=True, timeout=900,
                       env=dict(os.environ))
    if p.returncode != 0 or "survived" not in p.stdout:
        return out.fail("interpreter-survival", "chain of %d elements under the default limit: exit %s, %s" % (
            n, p.returncode, (p.stderr or "")[-300:]))
    out.nontrivial = True
    out.label("survival")
    return out


CALL_PATHS = {"name": "c(x - 1)", "ref": "prev(x - 1)", "space_attr": "_space.c(x - 1)", "model_attr": "_model.S.c(x - 1)"}


def run_depth_path(case, out):
    """a chain of n << limit elements evaluates, whichever way each formula reaches the next element"""
    reset_session()
    n = case["n"]
    m = mx.new_model("D")
    s = m.new_space("S")
    s.new_cells("c", "lambda x: %s + 1 if x > 0 else 0" % CALL_PATHS[case["path"]])
    if case["path"] == "ref":
        s.prev = s.c
    mx.set_recursion(100000)        # the library's default (the harness otherwise works with 400)
    try:
        v = s.c(n)
    except Exception as exc:
        mx.set_recursion(400)
        return out.fail("depth-path-failed", "a chain of %d elements (formula recursion limit %d) calling the next "
                        "element as %s raised %s" % (n, 100000, CALL_PATHS[case["path"]],
                                                     type(mx.get_error() or exc).__name__), path=case["path"])
    mx.set_recursion(400)
    if v != n:
        return out.fail("depth-value", "c(%d) = %r" % (n, v))
    bad = peek_executor()
    if bad:
        return out.fail("executor-not-unwound", "; ".join(bad))
    out.nontrivial = True
    out.label("depth_path:" + case["path"])
    return out


def sig_attr_path_depth(case, failure):
    """KF-C05-2: chains whose formulas reach the next cells through an attribute path (_space.c / _model.S.c) go
    through Cells.__call__, a C-level slot call whose recursion budget is fixed in Python 3.12"""
    return (case.get("kind") == "depth_path" and case.get("path") in ("space_attr", "model_attr")
            and failure.get("oracle") == "depth-path-failed" and "RecursionError" in failure.get("detail", ""))


SIGNATURES["attr_path_depth"] = sig_attr_path_depth


def run_case(case):
    out = Outcome()
    if case.get("kind") == "depth_path":
        return run_depth_path(case, out)
    if case.get("kind") == "depth":
        return run_depth(case, out)
    if case.get("kind") == "survival":
        return run_survival(case, out)
    reset_session()
    real = Real()
    rm = R.RModel()
    sim = MemoSim()
    use_fe = True
    nt = False
    for i, op in enumerate(case["ops"]):
        k = op[0]
        if k == "formula_error":
            use_fe = bool(op[1])
            mx.use_formula_error(use_fe)
            continue
        if k in ("arm", "set_recursion"):
            real.apply(op)
            apply_ref(rm, op)
            continue
        if k in ("new_space", "new_cells", "set_formula", "add_bases"):
            res = real.apply(op)
            if res[0] == "ok":
                apply_ref(rm, op)
            continue
        if k in ("set_ref", "del_ref"):
            res = real.apply(op)
            if res[0] == "ok":
                apply_ref(rm, op)
                # reference edits discard values coarsely (C02's business): resynchronise from the live model
                after = live_held(real)
                sim.discard_many(list(sim.held - set(after)))
                if sim.held != set(after):
                    out.discard = True
                    return out
            continue
        if k == "set_cells_formula":
            # everything computed from (or through) the cells must be gone, whatever failed before
            res = real.apply(op)
            if res[0] != "ok":
                return out.fail("edit-raised", "%r -> %r" % (op, res), i)
            apply_ref(rm, op)
            name = op[2]
            own = {e for e in sim.held if e[1] == name and e not in sim.inputs}
            through = {e for e, us in sim.upred.items() if any(u[1] == name for u in us) and e in sim.held}
            must_go = set(own) | set(through)
            for e in list(own | through):
                must_go |= sim.dependents(e)
            must_go -= set(sim.inputs)
            after = live_held(real)
            stale = sorted((e for e in must_go if e in after), key=repr)
            if stale:
                return out.fail("stale-after-formula-change", "after %r (following the failures above) these elements "
                                "computed from %s still hold values: %r" % (op[:3], name, stale[:6]), i)
            sim.discard_many(list(sim.held - set(after)))
            if sim.held != set(after):
                out.discard = True
                return out
            out.count("formula_changes")
            continue
        if k == "clear_all_model":
            real.apply(op)
            sim.discard_many(list(sim.held))
            continue
        if k != "eval":
            continue
        sid = tup(op[1])
        try:
            eo = elem_of(rm, sid, op[2], tup(op[3]), op[4])
            if eo is None:
                continue
            exp = R.evaluate(rm, sid, op[2], tup(op[3]), op[4], held=sim.memory())
        except R.Budget:
            out.discard = True
            return out
        except (KeyError, TypeError):
            continue
        top = eo[0]
        before = live_held(real)
        take_ticks()
        # raw call so that the exception object can be inspected
        try:
            c = real.ctx(sid).cells[op[2]]
            v = c(*tup(op[3]), **(op[4] or {}))
            res = ("ok", plain_real(v))
            exc = None
        except BaseException as e:
            exc = e
            res = ("err", type(e).__name__)
        ticks = take_ticks()
        out.count("evaluations")
        trace = exp[2]
        limited = rm.maxdepth is not None and rm.maxdepth < 100
        if limited:
            # under a small recursion limit which calls still fit depends on what is served from memory at that
            # moment; the reference models that only approximately.  Asserted here: the error is the limit error in
            # its wrapper, nothing is left executing, the self-checks pass - and (below) every later evaluation is
            # right.  Held values are dropped afterwards so that both sides start again from the same picture.
            if res[0] == "err":
                out.count("faulted_evaluations")
                orig = mx.get_error() if use_fe else exc
                if use_fe and type(exc).__name__ != "FormulaError":
                    return out.fail("error-wrapper", "%r raised %s instead of FormulaError" % (op, type(exc).__name__), i)
                if exp[0] == "err" and type(orig).__name__ != exp[1] and "DeepReferenceError" not in (
                        type(orig).__name__, exp[1]):
                    return out.fail("error-kind", "%r: modelx raises %r, reference %s" % (op, orig, exp[1]), i)
            bad = peek_executor()
            if bad:
                return out.fail("executor-not-unwound", "after %r: %s" % (op, "; ".join(bad)), i)
            try:
                mx.core.mxsys._check_sanity()
            except AssertionError as a:
                return out.fail("self-check", "mxsys._check_sanity() failed after %r: %r" % (op, a), i)
            real.m.clear_all()
            sim.discard_many(list(sim.held))
            out.count("limited_evaluations")
            continue
        if exp[0] == "ok":
            if res != ("ok", exp[1]):
                return out.fail("retry-value", "%r: modelx %r (%s), reference %r" % (
                    op, res, type(mx.get_error()).__name__ if exc is not None else "", exp[:2]), i)
        else:
            out.count("faulted_evaluations")
            if exc is None:
                return out.fail("no-error", "%r returned %r, reference raises %s" % (op, res, exp[1]), i)
            if use_fe:
                if type(exc).__name__ != "FormulaError":
                    return out.fail("error-wrapper", "%r raised %s instead of FormulaError" % (op, type(exc).__name__), i)
                orig = mx.get_error()
                if type(orig).__name__ != exp[1]:
                    return out.fail("error-kind", "%r: get_error() is %r, reference raises %s" % (op, orig, exp[1]), i)
            elif type(exc).__name__ != exp[1]:
                return out.fail("error-kind", "%r raised %s, reference raises %s (formula errors off)" % (
                    op, type(exc).__name__, exp[1]), i)
            # where was the failure?
            chain = [e for e in trace.entered if e in trace.failed]
            completed = [e for e in trace.executed]
            if len(chain) >= 3 and completed:
                nt = True
        ensure_spaces(sim, rm, sid)
        pred = sim.simulate(trace, top)
        if ticks != pred:
            return out.fail("execution-log", "%r (%s): executed %r, expected %r" % (op, exp[0], ticks, pred), i)
        bad = peek_executor()
        if bad:
            return out.fail("executor-not-unwound", "after %r: %s" % (op, "; ".join(bad)), i)
        out.count("internal_peeks")
        live = live_held(real)
        if set(live) != sim.held:
            missing = sorted(sim.held - set(live), key=repr)[:5]
            extra = sorted(set(live) - sim.held, key=repr)[:5]
            return out.fail("held-set", "after %r (%s): completed elements that lost their value: %r; elements that "
                            "must not hold a value (failing chain) but do: %r" % (op, exp[0], missing, extra), i)
        for e, v in before.items():
            if e in live and live[e] != v and e[1] is not None:
                return out.fail("held-value-changed", "%r was %r before %r, now %r" % (e, v, op, live[e]), i)
        # library self-checks
        try:
            mx.core.mxsys._check_sanity()
        except AssertionError as a:
            return out.fail("self-check", "mxsys._check_sanity() failed after %r: %r" % (op, a), i)
        except Exception:
            pass
    # everything held equals the value the reference computed when the element acquired it
    for e, v in live_held(real).items():
        if e[1] is None or e not in sim.values:
            continue
        if sim.values[e] != plain_real(v):
            return out.fail("held-value", "%r holds %r, reference computed %r" % (e, v, sim.values[e]),
                            len(case["ops"]) - 1)
    out.nontrivial = nt
    if not use_fe:
        out.label("formula_error_off")
    return out
