"""C09 - the cached flag never changes any result.

Generator: a model with n <= 5 flag-carrying cells and a history of evaluations,
edits (references by name and by attribute path, formulas, new / deleted /
renamed cells, bases) and flag flips at arbitrary points.
Oracle (D): the history is replayed under EVERY one of the 2^n initial flag
assignments; every query outcome must be identical to the all-cached run.
Uncached cells: hold no values (len == 0), execute on every call, accept
unhashable arguments, and reject assignment.
"""

import copy

from hypothesis import strategies as st

import modelx as mx

from .. import gen, ref as R
from ..drive import Real, reset_session, take_ticks, tup, plain_real, EDIT_OPS
from ..runner import Outcome

ID = "C09"
LEVEL = "exploration"
DESIGN_REF = "DESIGN.md section 6, C09"
RULE = ("case = generated model (inheritance, ItemSpaces, attribute paths) + 8-20 steps of evaluations, edits and flag "
        "flips; replayed under all 2^n initial flag assignments of n<=5 chosen cells (exhaustive per case); non-trivial = "
        "the same query is asked before and after an edit and its answer changes (invalidation was required) in a case "
        "with n>=2 flag-carrying cells; distinct = case hash")
ASSUMPTIONS = [
    "formulas never return None (a cached cells raises NoneReturnedError where an uncached one returns None; not asserted)",
    "values are never assigned to flag-carrying cells (assignment to an uncached cells is a documented rejection)",
]
SIGNATURES = {}

FEAT = gen.Feat(inherit=True, items=True, uncached=False, objrefs=False, shadow=False, max_top=2, max_child=1,
                max_cells=3, max_rank=4, depth=2, tick=True, partial=True)
EDITS = ["set_ref", "set_ref", "set_ref", "shadow_ref", "del_ref", "set_mref", "set_mref", "set_cells_formula",
         "override", "new_cells", "del_cells", "rename_cells", "add_bases", "remove_bases"]


def plan(tier):
    if tier == "quick":
        return {"shards": 8, "examples": 100, "wall": 100}
    return {"shards": 16, "examples": 1200, "wall": 2400}


@st.composite
def cases(draw, dag=False):
    if dag:
        ops, G, _info = gen.gen_dag_model(draw, ncells=(4, 6), uncached=False, handled=False, lines=False)
    else:
        ops, G = gen.gen_model_ops(draw, FEAT)
    forced = []
    scen = []
    mk = lambda name, params, expr: {"name": name, "params": params, "expr": expr, "cached": True, "allow_none": None,
                                     "form": "lambda", "tick": True}
    if not dag and draw(st.integers(0, 2)) == 0:
        # a cached caller of a partial cells (fails for 0): success, failure, then the partial cells is replaced
        extra = [["new_space", [], "Qu", None, None],
                 ["new_cells", ["Qu"], mk("u0", [["x", None]], ["bin", "//", ["lit", 12], ["var", "x"]])],
                 ["new_cells", ["Qu"], mk("x0", [["x", None]], ["bin", "+", ["call", ["name", "u0"], [["var", "x"]], "()"],
                                                               ["lit", 1]])]]
        for op in extra:
            ops.append(op)
            gen.apply_ref(G, op)
        forced.append(["Qu", "u0"])
        scen.append([["eval", ["Qu"], "x0", [1], None, "()"], ["eval", ["Qu"], "x0", [0], None, "()"],
                     ["set_cells_formula", ["Qu"], "u0", mk("u0", [["x", None]], ["bin", "+", ["var", "x"], ["lit", 50]])],
                     ["eval", ["Qu"], "x0", [1], None, "()"]])
    if not dag and draw(st.integers(0, 2)) == 0:
        # a cells derived from two bases is read from another space; the nearer definition is deleted
        extra = [["new_space", [], "Qa", None, None], ["new_space", [], "Qb", None, None],
                 ["new_cells", ["Qa"], mk("u1", [["x", None]], ["bin", "+", ["var", "x"], ["lit", 1]])],
                 ["new_cells", ["Qb"], mk("u1", [["x", None]], ["bin", "+", ["var", "x"], ["lit", 100]])],
                 ["new_space", [], "Qs", [["Qa"], ["Qb"]], None], ["new_space", [], "Qp", None, None],
                 ["new_cells", ["Qp"], mk("pc", [], ["call", ["attr", ["attr", ["name", "_model"], "Qs"], "u1"],
                                                     [["lit", 1]], "()"])]]
        for op in extra:
            ops.append(op)
            gen.apply_ref(G, op)
        forced += [["Qa", "u1"], ["Qb", "u1"]]
        scen.append([["eval", ["Qp"], "pc", [], None, "()"], ["del_cells", ["Qa"], "u1"],
                     ["eval", ["Qp"], "pc", [], None, "()"]])
    if not dag and draw(st.integers(0, 2)) == 0:
        # a cells that reads a space-level reference by name, read from another space; another cells is defined in
        # its space afterwards; the reference is re-assigned twice
        extra = [["new_space", [], "Qr", None, None], ["new_space", [], "Qd", None, None],
                 ["set_ref", ["Qr"], "rq", ["v", 3], None],
                 ["new_cells", ["Qr"], mk("uq", [["x", None]], ["bin", "+", ["name", "rq"], ["var", "x"]])],
                 ["new_cells", ["Qr"], mk("vq", [], ["lit", 1])],
                 ["new_cells", ["Qd"], mk("dq", [], ["call", ["attr", ["attr", ["name", "_model"], "Qr"], "uq"],
                                                     [["lit", 1]], "()"])]]
        for op in extra:
            ops.append(op)
            gen.apply_ref(G, op)
        forced.append(["Qr", "uq"])
        scen.append([["eval", ["Qd"], "dq", [], None, "()"], ["set_ref", ["Qr"], "rq", ["v", 40], None],
                     ["eval", ["Qd"], "dq", [], None, "()"], ["set_ref", ["Qr"], "rq", ["v", 500], None],
                     ["eval", ["Qd"], "dq", [], None, "()"]])
    if not dag and draw(st.integers(0, 2)) == 0:
        # a cells that reads two references by attribute path, called by another cells; each reference changes in turn
        ra = ["attr", ["attr", ["name", "_model"], "Qg"], "ra"]
        rb = ["attr", ["attr", ["name", "_model"], "Qg"], "rb"]
        extra = [["new_space", [], "Qg", None, None],
                 ["set_ref", ["Qg"], "ra", ["v", 2], None], ["set_ref", ["Qg"], "rb", ["v", 5], None],
                 ["new_cells", ["Qg"], mk("ug", [["x", None]], ["bin", "+", ["bin", "*", ra, ["var", "x"]], rb])],
                 ["new_cells", ["Qg"], mk("cg", [], ["call", ["name", "ug"], [["lit", 1]], "()"])]]
        for op in extra:
            ops.append(op)
            gen.apply_ref(G, op)
        forced.append(["Qg", "ug"])
        first, second = draw(st.permutations(["ra", "rb"]))
        scen.append([["eval", ["Qg"], "cg", [], None, "()"], ["set_ref", ["Qg"], first, ["v", 30], None],
                     ["eval", ["Qg"], "cg", [], None, "()"], ["set_ref", ["Qg"], second, ["v", 400], None],
                     ["eval", ["Qg"], "cg", [], None, "()"]])
    if not dag and draw(st.integers(0, 2)) == 0:
        # a cells whose formula answers None for some arguments (None is not allowed): the error is the same
        # whether the cells keeps its values or not, also for a caller
        extra = [["new_space", [], "Qn", None, None],
                 ["new_cells", ["Qn"], mk("un", [["x", None]], ["ifgt", ["var", "x"], 1, ["none"], ["var", "x"]])],
                 ["new_cells", ["Qn"], mk("cn", [["x", None]], ["bin", "+", ["call", ["name", "un"], [["var", "x"]], "()"],
                                                               ["lit", 1]])]]
        for op in extra:
            ops.append(op)
            gen.apply_ref(G, op)
        forced.append(["Qn", "un"])
        scen.append([["eval", ["Qn"], "un", [1], None, "()"], ["eval", ["Qn"], "un", [2], None, "()"],
                     ["eval", ["Qn"], "cn", [3], None, "()"], ["eval", ["Qn"], "cn", [0], None, "()"]])
    allcells = sorted({(tuple(op[1]), op[2]["name"]) for op in ops if op[0] == "new_cells"}
                      - {(tuple(f[:-1]), f[-1]) for f in forced})
    n = min(len(allcells), draw(st.sampled_from([1, 2, 3, 3, 4, 4, 5, 5]))) if allcells else 0
    n = max(0, min(n, 5 - len(forced)))
    flagged = forced + [list(map(list, [c[0]]))[0] + [c[1]] for c in draw(st.permutations(allcells))[:n]]
    sids = gen.all_ctx_ids(G)
    EDITS_ = EDITS if not dag else ["set_ref", "set_ref", "set_mref", "set_mref", "set_cells_formula"]
    hist = []
    queries = []
    pinned = set()
    nsteps = draw(st.integers(8, 20))
    at = {}
    for sc in scen:
        at.setdefault(draw(st.integers(0, nsteps - 1)), []).extend(sc)
    for step in range(nsteps):
        if step in at:
            for op in at[step]:
                if op[0] == "eval" or gen.apply_edit_to_picture(G, op):
                    hist.append(op)
        k = draw(st.integers(0, 9))
        if k <= 4 or not queries:
            q = gen.gen_query(draw, G, sids + (gen.item_sids(G, 2) if draw(st.booleans()) else []))
            if q:
                q[1] = gen._jsid(tup(q[1]))
                hist.append(q)
                queries.append(q)
        elif k == 5:
            hist.append(draw(st.sampled_from(queries)))
        elif k == 6 and flagged:
            f = draw(st.sampled_from(flagged))
            if draw(st.booleans()):
                hist.append(["flip", f[:-1], f[-1]])
                pinned.discard(tuple(f))
            else:
                # switch caching ON in every run, then assign a value (legal once the cells is cached)
                hist.append(["setflag", f[:-1], f[-1], True])
                pinned.add(tuple(f))
                sp = G.space(tuple(f[:-1]))
                found = G.find_cells(sp, f[-1]) if G.has_space(tuple(f[:-1])) else None
                if found is not None and f[-1] in sp.cells:
                    key = [draw(st.integers(0, 2)) for _ in found[1].params]
                    op = ["set_value", f[:-1], f[-1], key, draw(st.integers(100, 150))]
                    hist.append(op)
                    gen.apply_edit_to_picture(G, op)
                    for q in draw(st.permutations(queries))[:3]:
                        hist.append(q)
        else:
            op = gen.gen_edit(draw, G, FEAT, kinds=EDITS_)
            if dag and op is not None and op[0] == "set_cells_formula":
                # keep the DAG shape: only the constant term of a leaf-ish formula changes
                sp = G.space(tuple(op[1]))
                old = sp.cells[op[2]]
                op = ["set_cells_formula", op[1], op[2], dict(old.as_dict(), expr=["bin", "+", old.expr,
                                                                                   ["lit", draw(st.integers(1, 9))]])]
            if op is not None and gen.apply_edit_to_picture(G, op):
                hist.append(op)
                for q in draw(st.permutations(queries))[:3]:
                    hist.append(q)
    return {"ops": ops + hist, "flagged": flagged}


def strategy(tier):
    return st.one_of(cases(), cases(dag=True))


def run_once(case, mask):
    """Replay the case with the initial flags given by ``mask``; returns (answers, problems)."""
    reset_session()
    real = Real()
    flagged = [tuple(f) for f in case.get("flagged", [])]
    uncached_now = {f: bool(mask >> j & 1) for j, f in enumerate(flagged)}
    answers = []
    for i, op in enumerate(case["ops"]):
        k = op[0]
        if k == "new_cells":
            key = tuple(op[1]) + (op[2]["name"],)
            if key in uncached_now:
                op = [op[0], op[1], dict(op[2], cached=not uncached_now[key])]
            real.apply(op)
        elif k == "flip":
            key = tuple(op[1]) + (op[2],)
            if key in uncached_now:
                uncached_now[key] = not uncached_now[key]
                real.apply(["set_cached", op[1], op[2], not uncached_now[key]])
        elif k == "setflag":
            key = tuple(op[1]) + (op[2],)
            if key in uncached_now:
                uncached_now[key] = not op[3]
                real.apply(["set_cached", op[1], op[2], op[3]])
        elif k == "rename_cells":
            res = real.apply(op)
            key = tuple(op[1]) + (op[2],)
            if res[0] == "ok" and key in uncached_now:
                uncached_now[tuple(op[1]) + (op[3],)] = uncached_now.pop(key)
        elif k == "eval":
            take_ticks()
            res = real.apply(op)
            ticks = take_ticks()
            answers.append((i, ("ok", plain_real(res[1])) if res[0] == "ok" else res))
            # uncached cells execute on every call
            key = tuple(x for x in op[1] if isinstance(x, str)) + (op[2],)
            if res[0] == "ok" and uncached_now.get(key):
                try:
                    live = real.space(key[:-1]).cells[key[-1]].is_cached
                except Exception:
                    live = True
                if not all(isinstance(x, str) for x in op[1]):
                    # the same cells inside an instance has the flag of the cells it was made from
                    try:
                        inst = real.ctx(tup(op[1])).cells[op[2]].is_cached
                    except Exception:
                        inst = live
                    if inst != live:
                        return answers, ("instance-flag", "step %d: %r: is_cached is %r in the instance, %r in its base "
                                                          "space" % (i, op, inst, live))
                # (a derived copy that took the place of the flagged cells follows its definer's flag)
                if not ticks and not live:       # (tick names are those at definition time: compare by count only)
                    return answers, ("uncached-not-executed", "step %d: %r returned without running its formula "
                                                              "(flags %r)" % (i, op, sorted(uncached_now.items())))
        elif k in EDIT_OPS:
            real.apply(op)
    # uncached cells hold no values and reject assignment
    for key, unc in uncached_now.items():
        if not unc:
            continue
        try:
            c = real.space(key[:-1]).cells[key[-1]]
        except Exception:
            continue
        if c.is_cached:
            continue        # derived copies follow their definer; overridden elsewhere
        if len(c) != 0:
            return answers, ("uncached-holds-values", "%s holds %d values" % (".".join(key), len(c)))
        try:
            if len(c.parameters) == 0:
                c.value = 1
            else:
                c[(0,) * len(c.parameters)] = 1
            return answers, ("uncached-assignment-accepted", "assignment to uncached %s accepted" % ".".join(key))
        except ValueError:
            pass
        except Exception as exc:
            return answers, ("uncached-assignment-error", "assignment to uncached %s raised %r" % (".".join(key), exc))
    return answers, None


def unhashable_probe():
    reset_session()
    m = mx.new_model("U")
    s = m.new_space("S")
    s.new_cells("n", "lambda xs, d=None: len(xs) + (len(d) if d else 0)", is_cached=False)
    s.new_cells("top", "lambda k: n([k, k + 1], {'a': k})")
    try:
        if s.n([1, 2, 3]) != 3 or s.n([1], {"a": 1}) != 2 or s.top(1) != 3 or s.top(1) != 3:
            return "wrong value with unhashable arguments"
    except Exception as exc:
        return "unhashable arguments rejected by an uncached cells: %r" % (mx.get_error() or exc)
    # a failure inside such a call is reported like any other failure
    s.new_cells("bad", "lambda xs: 12 // len(xs)", is_cached=False)
    s.new_cells("topbad", "lambda k: bad([]) + k")
    for call in (lambda: s.bad([]), lambda: s.topbad(1)):
        try:
            call()
            return "a failing call with unhashable arguments returned a value"
        except Exception as exc:
            if type(exc).__name__ != "FormulaError" or not isinstance(mx.get_error(), ZeroDivisionError):
                return "a failure inside an uncached cells called with unhashable arguments surfaced as %r (error %r)" % (
                    exc, mx.get_error())
    return None


def run_case(case):
    out = Outcome()
    n = len(case.get("flagged", []))
    base, prob = run_once(case, 0)
    if prob:
        return out.fail(prob[0], prob[1])
    for mask in range(1, 2 ** n):
        ans, prob = run_once(case, mask)
        out.count("assignments_replayed")
        if prob:
            return out.fail(prob[0], prob[1] + " [mask %d]" % mask, None, mask=mask)
        if ans != base:
            for (i, a), (_, b) in zip(ans, base):
                if a != b:
                    unc = [".".join(f) for j, f in enumerate(case["flagged"]) if mask >> j & 1]
                    return out.fail("flag-changes-result",
                                    "step %d %r answers %r with %r initially uncached, %r when all cells are cached" % (
                                        i, case["ops"][i], a, unc, b), i, mask=mask)
            return out.fail("flag-changes-result", "different number of answers", None, mask=mask)
    p = unhashable_probe()
    if p:
        return out.fail("uncached-unhashable", p)
    # non-trivial: some repeated query changed its answer across an edit
    seen = {}
    changed = False
    for (i, a) in base:
        key = repr(case["ops"][i])
        if key in seen and seen[key] != a:
            changed = True
        seen[key] = a
    out.nontrivial = changed and n >= 2
    out.label("n=%d" % n)
    return out
