"""C03 - derived members equal re-derivation from defined members along the C3 order.

G1 (exhaustive): every ordered-base DAG on n <= 4 spaces x definer subsets of a
cells ``f`` and a reference ``r`` x 3 construction orders.
G2 (histories): define / redefine / delete / rename members in bases, override and
un-override in subs, add / remove bases, new spaces.
Oracle (R): after every accepted step, for every space, membership, derived flags,
formula sources, reference values and ``bases`` equal derivation from scratch with the
harness's own C3, and every cells evaluates as the reference says (names resolved
in the sub space).
"""

import copy
import itertools

from hypothesis import strategies as st

from .. import gen, ref as R
from ..drive import Real, apply_ref, reset_session, EDIT_OPS
from ..oracles import check_structure, check_values
from ..runner import Outcome

ID = "C03"
LEVEL = "exploration"
DESIGN_REF = "DESIGN.md section 6, C03"
RULE = ("enumerated part: all ordered-base DAGs on <=4 spaces (bases have smaller index; 160 shapes for n=4) x all 15 "
        "non-empty definer subsets for cells f x a paired definer subset for reference r x 3 construction orders "
        "(members first / bases first via add_bases / bases= at creation), plus every consistent DAG on 4 and (a third of those on) 5 "
        "spaces with >= n edges built edge by edge, far subs first, with each last base removed and re-added; history part: generated member/base edit "
        "histories; non-trivial = some name is defined in >=2 spaces of one linearisation (a real choice among "
        "definers exists) - for histories additionally an edit touches a definer of such a name; distinct = case hash")
ASSUMPTIONS = [
    "own C3 implementation in vf/ref.py (cross-checked against Python's class MRO in tools/selftest.py)",
    "child spaces are not inherited in this version (observed) and are not asserted",
    "allow_none propagation and the order of members inside space.cells are not asserted",
]
SIGNATURES = {}

NAMES = ["A", "B", "C", "D", "E"]


def EXHAUSTIVE(tier):
    return True


def plan(tier):
    if tier == "quick":
        return {"shards": 8, "examples": 100, "wall": 100}
    return {"shards": 16, "examples": 1500, "wall": 2400}


# ----------------------------------------------------------------------------
# enumeration

def ordered_subsets(items):
    for k in range(len(items) + 1):
        for comb in itertools.permutations(items, k):
            yield list(comb)


def all_dags(n):
    per_node = [list(ordered_subsets(list(range(i)))) for i in range(n)]
    for choice in itertools.product(*per_node):
        yield [list(c) for c in choice]


def fcell(i):
    return {"name": "f", "params": [], "expr": ["bin", "+", ["bin", "*", ["name", "r"], ["lit", 100]], ["lit", i]],
            "cached": i % 3 != 1, "allow_none": None, "form": "lambda" if i % 2 else "def", "tick": False}


def config_ops(dag, fdef, rdef, order):
    n = len(dag)
    ops = []
    members = []
    for i in range(n):
        if i in rdef:
            members.append(["set_ref", [NAMES[i]], "r", ["v", 10 + i], None])
    for i in range(n):
        if i in fdef:
            members.append(["new_cells", [NAMES[i]], fcell(i)])
    if order == 0:          # members first, bases through add_bases
        for i in range(n):
            ops.append(["new_space", [], NAMES[i], None, None])
        ops += members
        for i in range(n):
            if dag[i]:
                ops.append(["add_bases", [NAMES[i]], [[NAMES[b]] for b in dag[i]]])
    elif order == 1:        # bases= at creation, members afterwards (farthest definer first)
        for i in range(n):
            ops.append(["new_space", [], NAMES[i], [[NAMES[b]] for b in dag[i]] or None, None])
        ops += members
    else:                   # mixed: bases at creation, members in reverse order (nearest definer first)
        for i in range(n):
            ops.append(["new_space", [], NAMES[i], [[NAMES[b]] for b in dag[i]] or None, None])
        ops += list(reversed(members))
    # a name that is already derived in the target space is overridden through the formula setter
    # (new_cells on a derived name is a documented rejection)
    G = R.RModel()
    out = []
    for op in ops:
        if op[0] == "new_cells":
            sp = G.space(tuple(op[1]))
            try:
                found = G.find_cells(sp, op[2]["name"])
            except (TypeError, ValueError):
                found = None
            if found is not None and found[0] is not sp:
                op = ["set_cells_formula", op[1], op[2]["name"], op[2]]
        out.append(op)
        try:
            apply_ref(G, op)
        except Exception:
            pass
    return out


def enumerate_cases(tier, seed):
    sizes = [2, 3, 4]
    for n in sizes:
        subsets = [s for k in range(1, n + 1) for s in itertools.combinations(range(n), k)]
        for dag in all_dags(n):
            for j, fdef in enumerate(subsets):
                rdefs = [subsets[(j * 7 + 3) % len(subsets)]]
                if tier == "thorough":
                    rdefs = subsets
                for rdef in rdefs:
                    for order in (0, 1, 2):
                        yield {"ops": config_ops(dag, set(fdef), set(rdef), order), "kind": "enum",
                               "dag": dag, "order": order}
    # base-list churn: a sub space D over independent bases A, B, C, E: every ordered initial base list of
    # size 2..3 out of {A, B, C}, every non-empty removal, then every possible addition (exhaustive)
    indep = ["A", "B", "C", "E"]
    for k in (2, 3):
        for init in itertools.permutations(indep[:3], k):
            for r in range(1, k + 1):
                for rem in itertools.combinations(init, r):
                    rest = [b for b in init if b not in rem]
                    for add in [b for b in indep if b not in rest]:
                        ops = [["new_space", [], b, None, None] for b in indep]
                        for j, b in enumerate(indep):
                            ops.append(["new_cells", [b], fcell(j)])
                            ops.append(["set_ref", [b], "r", ["v", 10 + j], None])
                        ops.append(["new_space", [], "D", [[b] for b in init], None])
                        ops.append(["remove_bases", ["D"], [[b] for b in rem]])
                        ops.append(["add_bases", ["D"], [[add]]])
                        yield {"ops": ops, "kind": "enum", "family": "base-churn"}
    # member churn: D (and a sub DD of D) over an ordered base list; the member of one base is renamed away, renamed
    # back, deleted: each time D derives the name from the next definer in its order
    for k in (2, 3):
        for init in itertools.permutations(indep[:3], k):
            for b in init:
                ops = [["new_space", [], x, None, None] for x in indep]
                for j, x in enumerate(indep):
                    ops.append(["new_cells", [x], fcell(j)])
                    ops.append(["set_ref", [x], "r", ["v", 10 + j], None])
                ops.append(["new_space", [], "D", [[x] for x in init], None])
                ops.append(["new_space", [], "DD", [["D"]], None])
                ops.append(["rename_cells", [b], "f", "g"])
                ops.append(["rename_cells", [b], "g", "f"])
                ops.append(["del_cells", [b], "f"])
                ops.append(["del_ref", [b], "r"])
                yield {"ops": ops, "kind": "enum", "family": "member-churn"}
    # edge churn on 4- and 5-space DAGs built edge by edge (sub spaces last-to-first, so that a space's edge to a
    # far sub exists before its edge to a nearer one): every single base is removed and put back, one at a time,
    # with members defined in the root only / in the root and a middle space
    for n in (4, 5):
        for idx, dag in enumerate(all_dags(n)):
            direct = {i: list(b) for i, b in enumerate(dag)}
            try:
                for i in range(n):
                    R.c3(i, direct)
            except (TypeError, ValueError):
                continue
            edges = [(i, b) for i in range(n) for b in dag[i]]
            if len(edges) < n or (tier == "quick" and n == 5 and (idx + seed) % 3 != 0):
                continue
            ops = [["new_space", [], NAMES[i], None, None] for i in range(n)]
            ops.append(["new_cells", [NAMES[0]], fcell(0)])
            ops.append(["set_ref", [NAMES[0]], "r", ["v", 10], None])
            if idx % 2:
                ops.append(["set_ref", [NAMES[n // 2]], "r", ["v", 10 + n // 2], None])
            for i in reversed(range(n)):
                for b in dag[i]:
                    ops.append(["add_bases", [NAMES[i]], [[NAMES[b]]]])
            for i, b in edges:
                if len(dag[i]) == 1 or dag[i][-1] == b:
                    # (re-adding appends: only a last or only base keeps the base order of the shape)
                    ops.append(["remove_bases", [NAMES[i]], [[NAMES[b]]]])
                    ops.append(["add_bases", [NAMES[i]], [[NAMES[b]]]])
            yield {"ops": ops, "kind": "enum", "family": "edge-churn", "dag": dag}
    if tier == "thorough":
        # a deterministic 4% sample of the 5-space DAGs
        n = 5
        subsets = [s for k in range(1, n + 1) for s in itertools.combinations(range(n), k)]
        for idx, dag in enumerate(all_dags(n)):
            if (idx * 2654435761 + seed) % 25 != 0:
                continue
            fdef = subsets[(idx * 13 + seed) % len(subsets)]
            rdef = subsets[(idx * 7 + 3 + seed) % len(subsets)]
            yield {"ops": config_ops(dag, set(fdef), set(rdef), idx % 3), "kind": "enum", "dag": dag,
                   "order": idx % 3}


# ----------------------------------------------------------------------------
# histories

FEAT = gen.Feat(inherit=True, attrpaths=True, uncached=True, uncached_p=3, max_top=4, max_child=1, max_cells=3, max_rank=3, depth=2,
                tick=False, recursion=False)


@st.composite
def histories(draw):
    ops, G = gen.gen_model_ops(draw, FEAT)
    n = draw(st.integers(4, 16))
    for _ in range(n):
        op = gen_member_edit(draw, G)
        if op is None:
            continue
        saved = copy.deepcopy(G) if op[0] in ("add_bases", "new_space", "remove_bases") else None
        try:
            apply_ref(G, op)
        except Exception:
            continue
        if saved is not None and not gen.mro_ok(G) and draw(st.integers(0, 3)) != 0:
            # mostly keep histories inside the consistent region; 1 in 4 inconsistent requests are kept
            # on purpose (they must be rejected) but are not applied to the generator's picture
            G.__dict__.update(saved.__dict__)
            continue
        if saved is not None and not gen.mro_ok(G):
            G.__dict__.update(saved.__dict__)
        ops.append(op)
    return {"ops": ops, "kind": "history"}


def gen_member_edit(draw, G):
    spaces = G.all_spaces()
    if not spaces:
        return None
    s = draw(st.sampled_from(spaces))
    p = list(s.path)
    kind = draw(st.sampled_from([
        "new_cells", "new_cells", "set_formula", "set_formula", "del_cells", "rename_cells", "set_ref", "set_ref",
        "del_ref", "add_bases", "add_bases", "remove_bases", "new_space", "set_cached", "override", "override",
        "del_space", "rename_space"]))
    if kind in ("del_space", "rename_space"):
        return gen.gen_edit(draw, G, FEAT, kinds=[kind])
    names = ["c%d" % i for i in range(FEAT.max_rank + 1)]
    if kind == "new_cells":
        free = [n for n in names if n not in s.cells and G.find_cells(s, n) is None] or \
               [n for n in names if n not in s.cells]
        # prefer names already defined elsewhere in a related space (creates competing definers)
        rel = [n for n in free if any(n in t.cells for t in G.all_spaces() if t is not s)]
        pool = rel or free
        if not pool:
            return None
        n = draw(st.sampled_from(pool))
        if G.find_cells(s, n) is not None:
            return None
        return ["new_cells", p, gen.gen_cells_def(draw, G, s, n, FEAT)]
    if kind == "set_formula":
        own = sorted(s.cells)
        if not own:
            return None
        n = draw(st.sampled_from(own))
        return ["set_cells_formula", p, n, gen.gen_cells_def(draw, G, s, n, FEAT, params=s.cells[n].params)]
    if kind == "override":
        derived = [n for n in G.cells_names(s) if n not in s.cells]
        if not derived:
            return None
        n = draw(st.sampled_from(derived))
        old = G.find_cells(s, n)[1]
        return ["set_cells_formula", p, n, gen.gen_cells_def(draw, G, s, n, FEAT, params=old.params)]
    if kind == "del_cells":
        own = sorted(s.cells)
        if not own:
            return None
        return ["del_cells", p, draw(st.sampled_from(own))]
    if kind == "rename_cells":
        own = sorted(s.cells)
        if not own:
            return None
        # prefer a name that another space defines too (a sub may then derive it from the other definer)
        rel = [n for n in own if any(n in t.cells for t in G.all_spaces() if t is not s)]
        n = draw(st.sampled_from(rel or own))
        new = draw(st.sampled_from(names))
        if new == n or G.find_cells(s, new) is not None:
            return None
        return ["rename_cells", p, n, new]
    if kind == "set_cached":
        own = sorted(s.cells)
        if not own:
            return None
        n = draw(st.sampled_from(own))
        return ["set_cached", p, n, not s.cells[n].cached]
    if kind == "set_ref":
        n = draw(st.sampled_from(gen.REF_NAMES))
        return ["set_ref", p, n, ["v", draw(st.integers(0, 99))], None]
    if kind == "del_ref":
        own = sorted(s.refs)
        if not own:
            return None
        return ["del_ref", p, draw(st.sampled_from(own))]
    if kind == "add_bases":
        cands = []
        for t in spaces:
            if t is s or t.path == s.path[:len(t.path)] or s.path == t.path[:len(s.path)]:
                continue
            if t.path in [tuple(b) for b in s.bases]:
                continue
            if s in G.mro(t):
                continue        # would be cyclic
            cands.append(t)
        if not cands:
            return None
        t = draw(st.sampled_from(cands))
        return ["add_bases", p, [list(t.path)]]
    if kind == "remove_bases":
        if not s.bases:
            return None
        return ["remove_bases", p, [list(draw(st.sampled_from(s.bases)))]]
    if kind == "new_space":
        free = [n for n in gen.SPACE_NAMES + ["S4", "S5"] if n not in G.spaces]
        if not free:
            return None
        k = draw(st.integers(1, min(2, len(spaces))))
        bs = draw(st.permutations(spaces))[:k]
        bs = [b for b in bs]
        return ["new_space", [], free[0], [list(b.path) for b in bs], None]
    return None


def strategy(tier):
    return histories()


# ----------------------------------------------------------------------------

def competing(rm):
    """names defined in >=2 spaces of one linearisation"""
    out = set()
    for s in rm.all_spaces():
        try:
            mro = rm.mro(s)
        except Exception:
            continue
        for kind in ("cells", "refs"):
            seen = {}
            for t in mro:
                for n in getattr(t, kind):
                    seen[n] = seen.get(n, 0) + 1
            out.update((kind, n) for n, c in seen.items() if c >= 2)
    return out


def run_case(case):
    out = Outcome()
    reset_session()
    real = Real(hooks=False)
    rm = R.RModel()
    ops = case["ops"]
    is_enum = case.get("kind") == "enum"
    touched = False
    for i, op in enumerate(ops):
        if op[0] not in EDIT_OPS:
            continue
        comp_before = competing(rm)
        res = real.apply(op)
        if res[0] == "ok":
            try:
                apply_ref(rm, op)
            except (KeyError, AttributeError, TypeError) as exc:
                return out.fail("accepted-unexpected",
                                "modelx accepted %r which has no meaning in the reference (%s: %s)" % (
                                    op, type(exc).__name__, exc), i)
            out.count("accepted")
        else:
            out.count("rejected")
            out.label("rejected:" + op[0])
        if op[0] in ("new_cells", "set_cells_formula", "del_cells", "rename_cells", "set_ref", "del_ref",
                     "set_cached"):
            kind = "refs" if "ref" in op[0] else "cells"
            nm = op[2]["name"] if op[0] == "new_cells" else op[2]
            if (kind, nm) in comp_before or (kind, nm) in competing(rm):
                touched = True
        # the structure oracle runs after every step of a history, at the end of a configuration
        if is_enum and i < len(ops) - 1 and not (case.get("family") == "member-churn" and op[0] in (
                "rename_cells", "del_cells", "del_ref")) and not (case.get("family") == "edge-churn" and op[0] in ("remove_bases",)
                                                  or case.get("family") == "edge-churn" and i and ops[i - 1][0] == "remove_bases"):
            continue
        f = check_structure(real, rm)
        if f:
            return out.fail(f[0], f[1] + "   [after %r -> %r]" % (op, res), i)
        real.m.clear_all()      # staleness across edits is C02's business: evaluate afresh
        f = check_values(real, rm)
        if f:
            return out.fail("derived-" + f[0], f[1] + "   [after %r]" % (op,), i)
    comp = competing(rm)
    out.nontrivial = bool(comp) and (is_enum or touched)
    if comp:
        out.label("competing_definers")
    if case.get("kind"):
        out.label("kind:" + case["kind"])
    return out
