"""C17 - the error traceback is exactly the chain that was executing.

Generator: DAG models whose formulas are laid out by the generator (lambda: one
line; def: tick + return line; 'deflines': one call per line) so that the line
of every call and of every raise is known; shapes include uncached cells,
ItemSpace cells, nested lambdas / comprehension-free calls through attribute
paths, formulas that catch a callee's failure themselves (_try), None results
(failure after return).  Every reachable element is the failure point in turn;
histories contain earlier unhandled failures, earlier handled failures and
handled failures inside the failing run.
Oracle (R): [(fullname, args, line)] of mx.get_traceback() equals the chain the
reference interpreter unwound (outermost first) with the generated line numbers;
mx.get_error() is of the reference's exception kind; trace_locals() shows the
parameters of the raising formula.
"""

from hypothesis import strategies as st

import modelx as mx
from modelx.core.cells import Cells

from .. import gen, ref as R
from ..drive import Real, apply_ref, reset_session, take_ticks, tup, plain_real
from ..memo import MemoSim
from ..runner import Outcome
from . import c05
from .c06 import elem_of, ensure_spaces

ID = "C17"
LEVEL = "fault_enumeration"
DESIGN_REF = "DESIGN.md section 6, C17"
RULE = ("C05-style fault plans on line-laid-out DAG models: every element reachable from the top query fails in turn "
        "(5 exception kinds incl. a BaseException, None results), with earlier failures and handled failures in the "
        "history; non-trivial = failing chain of depth >=3 and an earlier failure (handled or not) in the history; "
        "distinct = case hash")
ASSUMPTIONS = [
    "line numbers are those of the formula source as generated (formula.source keeps the layout)",
    "a None result is detected after the formula returned: the raising element is listed with line 0 (documented)",
]
def sig_shared_exception_instance(case, failure):
    """KF-C17-3: one exception OBJECT is raised more than once within an evaluation and an earlier raise was handled
    by a formula: the nodes rolled back for the handled raise cannot be told from those of the escaping one.  The
    case arms the 'same instance every time' fault kind, and the traceback is right when every raise gets a fresh
    exception object instead (counterfactual run)."""
    import json
    if failure.get("oracle") != "traceback":
        return False
    if not any(op[0] == "arm" and op[2] == "SharedValueError" for op in case["ops"]):
        return False
    fresh = json.loads(json.dumps(case).replace('"SharedValueError"', '"ValueError"'))
    return run_case(fresh).failure is None


SIGNATURES = {"shared_exception_instance": sig_shared_exception_instance}


def plan(tier):
    if tier == "quick":
        return {"shards": 8, "examples": 250, "wall": 100}
    return {"shards": 16, "examples": 4000, "wall": 2400}


def strategy(tier):
    return c05.plans()


def enumerate_cases(tier, seed):
    # long failing chains (every level is listed, however deep) and ItemSpaces rejected after their parameter
    # formula has returned (the instance being created is the last element, without a line)
    for n in (150, 250, 600) + ((3000,) if tier == "thorough" else ()):
        yield {"kind": "deep", "n": n, "ops": []}
    yield {"kind": "sourceless", "ops": []}
    for how in ("not_dict", "ref_clash", "bad_base"):
        for via in ("direct", "chain", "chain_after_handled"):
            yield {"kind": "item_reject", "how": how, "via": via, "ops": []}


def run_directed(case, out):
    reset_session()
    m = mx.new_model("T")
    s = m.new_space("S")
    if case["kind"] == "deep":
        n = case["n"]
        s.new_cells("c", "lambda x: c(x - 1) + 1 if x > 0 else 1 // 0")
        mx.set_recursion(100000)        # the library's default (the harness otherwise works with 400)
        try:
            s.c(n)
            return out.fail("no-error", "c(%d) returned" % n)
        except Exception:
            pass
        finally:
            mx.set_recursion(400)
        if type(mx.get_error()).__name__ != "ZeroDivisionError":
            return out.fail("get-error", "deep chain: get_error() is %r" % (mx.get_error(),))
        got = [tb_entry(nd, ln) for nd, ln in mx.get_traceback()]
        want = [(("S",), "c", (x,), 1) for x in range(n, -1, -1)]
        if got != want:
            return out.fail("traceback", "failing chain of %d elements: get_traceback() has %d entries, first %r, last %r" % (
                n + 1, len(got), got[:1], got[-1:]))
        out.nontrivial = True
        out.label("deep_chain")
        return out
    if case["kind"] == "sourceless":
        # a formula made from a function whose source cannot be retrieved fails like any other
        import warnings
        ns = {}
        exec("def baz(x):\n    return 1 // x\n", ns)
        with warnings.catch_warnings():
            warnings.simplefilter("ignore")
            s.new_cells("baz", ns["baz"])
        s.new_cells("top", "lambda x: baz(x) + 1")
        for call, want in ((lambda: s.baz(0), [(("S",), "baz", (0,), 2)]),
                           (lambda: s.top(0), [(("S",), "top", (0,), 1), (("S",), "baz", (0,), 2)])):
            try:
                call()
                return out.fail("no-error", "a failing source-less formula returned")
            except Exception as exc:
                if type(exc).__name__ != "FormulaError":
                    return out.fail("error-kind", "a failing formula without retrievable source raised %r" % (exc,))
            got = [tb_entry(nd, ln) for nd, ln in mx.get_traceback()]
            if got != want or not isinstance(mx.get_error(), ZeroDivisionError):
                return out.fail("traceback", "source-less formula: get_traceback() = %r, expected %r, get_error() = %r" % (
                    got, want, mx.get_error()))
        out.nontrivial = True
        out.label("sourceless")
        return out
    how, via = case["how"], case["via"]
    formula = {"not_dict": "lambda i: 5", "ref_clash": "lambda i: {'refs': {'c': 1}}",
               "bad_base": "lambda i: {'base': 5}"}[how]
    p = m.new_space("P", formula=formula)
    p.new_cells("c", "lambda: 1")
    s.new_cells("bad", "lambda x: 1 // 0")
    s.new_cells("mid", "lambda x: _model.P[x].c()")
    s.new_cells("top", "lambda x: mid(x) + 1")
    if via == "chain_after_handled":
        try:
            s.bad(1)            # an earlier failure of another chain
        except Exception:
            pass
    try:
        if via == "direct":
            p[3]
        else:
            s.top(3)
        return out.fail("no-error", "an ItemSpace whose formula returns %s was created" % formula)
    except Exception as exc:
        if type(exc).__name__ != "FormulaError":
            return out.fail("error-kind", "%s / %s: raised %r" % (how, via, exc))
    got = [tb_entry(nd, ln) for nd, ln in mx.get_traceback()]
    want = [(("P",), None, (3,), 0)]
    if via != "direct":
        want = [(("S",), "top", (3,), 1), (("S",), "mid", (3,), 1)] + want
    if got != want:
        return out.fail("traceback", "%s / %s: get_traceback() = %r, executing chain = %r" % (how, via, got, want))
    if mx.get_error() is None or isinstance(mx.get_error(), ZeroDivisionError):
        return out.fail("get-error", "%s / %s: get_error() is %r" % (how, via, mx.get_error()))
    out.nontrivial = True
    out.label("item_reject")
    return out


def tb_entry(node, line):
    obj = node.obj
    if isinstance(obj, Cells):
        return (obj.parent._idtuple[1:], obj.name, tuple(node.args), line)
    return (obj._idtuple[1:], None, tuple(node.args), line)


def run_case(case):
    out = Outcome()
    if case.get("kind") in ("deep", "item_reject", "sourceless"):
        return run_directed(case, out)
    reset_session()
    real = Real()
    rm = R.RModel()
    sim = MemoSim()
    failures_before = 0
    nt = False
    for i, op in enumerate(case["ops"]):
        k = op[0]
        if k == "formula_error":
            mx.use_formula_error(bool(op[1]))       # tracebacks are recorded in both modes
            continue
        if k in ("arm", "set_recursion"):
            real.apply(op)
            apply_ref(rm, op)
            continue
        if k in ("new_space", "new_cells", "set_formula", "add_bases", "set_ref", "del_ref"):
            res = real.apply(op)
            if res[0] == "ok":
                apply_ref(rm, op)
                if k in ("set_ref", "del_ref"):
                    real.m.clear_all()
                    sim.discard_many(list(sim.held))
            continue
        if k == "clear_all_model":
            real.apply(op)
            sim.discard_many(list(sim.held))
            continue
        if k != "eval":
            continue
        sid = tup(op[1])
        try:
            eo = elem_of(rm, sid, op[2], tup(op[3]), op[4])
            if eo is None:
                continue
            exp = R.evaluate(rm, sid, op[2], tup(op[3]), op[4], held=sim.memory())
        except R.Budget:
            out.discard = True
            return out
        except (KeyError, TypeError):
            continue
        res = real.apply(op)
        trace = exp[2]
        if rm.maxdepth is not None and rm.maxdepth < 100:
            # under a small recursion limit which calls still fit depends on what is served from memory at that
            # moment; the reference models that only approximately: the traceback is compared when both sides fail
            # with the limit error, any other outcome is left to C05, and both sides start afresh afterwards
            ok = True
            if exp[0] == "err" and res[0] == "err" and exp[1] == "DeepReferenceError" \
                    and type(mx.get_error()).__name__ == "DeepReferenceError":
                chain = list(reversed(trace.unwound))
                want = [(e[0], e[1], tuple(e[2]), trace.curline.get(e, 0)) for e in chain]
                try:
                    got = [tb_entry(n, ln) for n, ln in mx.get_traceback()]
                except Exception as exc:
                    return out.fail("get-traceback-raised", "%r: get_traceback() raised %r" % (op, exc), i)
                # (the chain itself may legitimately differ in depth bookkeeping; what must hold in any case:
                #  it starts at the requested element, every entry has a source line, no element repeats)
                if not got or got[0][:3] != (eo[0][0], eo[0][1], tuple(eo[0][2])) or any(g[3] < 1 for g in got) \
                        or len({g[:3] for g in got}) != len(got):
                    return out.fail("traceback", "%r (DeepReferenceError under set_recursion(%d)): get_traceback() = %r, "
                                    "reference chain %r" % (op, rm.maxdepth, got, want), i)
                if got == want:
                    out.count("limit_tracebacks_equal")
                out.count("failing_evaluations")
            real.m.clear_all()
            sim.discard_many(list(sim.held))
            continue
        ensure_spaces(sim, rm, sid)
        sim.simulate(trace, eo[0])
        if exp[0] == "ok":
            if res[0] != "ok":
                return out.fail("unexpected-error", "%r: modelx %r, reference %r" % (op, res, exp[:2]), i)
            if trace.handled:
                failures_before += 1
            continue
        if res[0] != "err":
            return out.fail("no-error", "%r: modelx %r, reference %r" % (op, res, exp[:2]), i)
        out.count("failing_evaluations")
        err = mx.get_error()
        if type(err).__name__ != exp[1]:
            return out.fail("get-error", "%r: get_error() is %r, reference raises %s" % (op, err, exp[1]), i)
        chain = list(reversed(trace.unwound))
        want = []
        for j, e in enumerate(chain):
            line = trace.curline.get(e, 0)
            if j == len(chain) - 1 and exp[1] == "NoneReturnedError":
                line = 0
            want.append((e[0], e[1], tuple(e[2]), line))
        try:
            got = [tb_entry(n, ln) for n, ln in mx.get_traceback()]
        except Exception as exc:
            return out.fail("get-traceback-raised", "%r: get_traceback() raised %r" % (op, exc), i)
        if got != want:
            return out.fail("traceback", "%r (%s, %d earlier failures): get_traceback() = %r, executing chain = %r" % (
                op, exp[1], failures_before, got, want), i)
        # locals of the raising formula show its parameters
        if exp[1] != "NoneReturnedError" and chain and chain[-1][1] is not None:
            try:
                loc = mx.trace_locals()
            except Exception as exc:
                return out.fail("trace-locals-raised", "%r: trace_locals() raised %r" % (op, exc), i)
            inner = chain[-1]
            ctx = R.Evaluator(rm).ctx_of(inner[0])
            cdef = rm.find_cells(ctx.base, inner[1])[1]
            for (p, _), v in zip(cdef.params, inner[2]):
                if loc is None or loc.get(p) != v:
                    return out.fail("trace-locals", "%r: trace_locals() = %r, raising element %r" % (op, loc, inner), i)
        if len(chain) >= 3 and failures_before:
            nt = True
        failures_before += 1
    out.nontrivial = nt
    return out
