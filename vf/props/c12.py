"""C12 - names are unique per space and the visible namespace equals the containers.

Generator: histories of member creation, deletion, renaming, base changes,
reference creation at model and space level and parameter formulas (ItemSpace
parameters are references), drawn from a SMALL shared name pool so that the same
name is requested as a cells, a reference and a child space, in one space and
across base / sub pairs.
Oracle (I), after every step, for every static space and a few ItemSpaces: the
key sets of cells, own references and child spaces are pairwise disjoint;
set(dir(space)) == cells + references + child spaces; a permanent uncached probe
cells ``lambda: sorted(globals())`` in every space returns the same set (the
names formulas see); getattr gives the object of the expected kind with
space-level references taking precedence over model-level ones; the same at
model level; mxsys._check_sanity() and model._impl._check_sanity() pass.
"""

from hypothesis import strategies as st

import modelx as mx
from modelx.core.cells import Cells
from modelx.core.space import BaseSpace

from ..drive import Real, reset_session
from ..runner import Outcome

ID = "C12"
LEVEL = "exploration"
DESIGN_REF = "DESIGN.md section 6, C12"
RULE = ("history of 10-30 naming operations over 2-4 spaces with all names drawn from a pool of 5; non-trivial = some "
        "operation asked for a name as one kind while the name was in use as another kind somewhere in the same base/sub "
        "chain (whether it was accepted or rejected); distinct = case hash")
ASSUMPTIONS = [
    "the probe cells reads globals() of its formula, which is the namespace modelx hands to formulas",
    "__builtins__ is ignored when comparing name sets",
]
SIGNATURES = {}

POOL = ["a", "b", "c", "Ch", "d"]
AUTO = ["Cells1", "Cells2", "Space1"]      # names the library picks by itself when none is given
SPACES = ["S0", "S1", "S2"]
PROBE = "zz_probe"


def plan(tier):
    if tier == "quick":
        return {"shards": 8, "examples": 800, "wall": 100}
    return {"shards": 16, "examples": 12000, "wall": 2400}


@st.composite
def histories(draw):
    ops = []
    n0 = draw(st.integers(2, 3))
    paths = [[s] for s in SPACES[:n0]]
    for p in paths:
        ops.append(["new_space_raw", [], p[0], None, None])
    for _ in range(draw(st.integers(10, 30))):
        k = draw(st.integers(0, 20))
        p = draw(st.sampled_from(paths))
        n = draw(st.sampled_from(POOL + AUTO if draw(st.integers(0, 4)) == 0 else POOL))
        if k <= 2:
            ops.append(["new_cells_raw", p, n, draw(st.sampled_from(["lambda: 1", "lambda x: x"]))])
        elif k <= 4:
            ops.append(["set_ref_raw", p, n, str(draw(st.integers(0, 9))), draw(st.sampled_from([None, "auto", "absolute"]))])
        elif k == 5:
            ops.append(["set_ref_raw", [], n, str(draw(st.integers(10, 19))), None])
        elif k == 6:
            ops.append(["new_space_raw", p, n, None, None])
            if len(paths) < 7:
                paths.append(p + [n])
        elif k == 7:
            q = draw(st.sampled_from(paths))
            if q != p:
                ops.append(["add_bases", p, [q]])
        elif k == 8:
            q = draw(st.sampled_from(paths))
            ops.append(["remove_bases", p, [q]])
        elif k == 9:
            ops.append(["del_member", draw(st.sampled_from([p, []])), n])
        elif k == 10:
            ops.append(["rename_cells", p, n, draw(st.sampled_from(POOL))])
        elif k == 11:
            if len(p) > 1:
                ops.append(["rename_space", p, draw(st.sampled_from(POOL))])
        elif k == 12:
            ps = draw(st.lists(st.sampled_from(POOL + ["p"]), min_size=1, max_size=2, unique=True))
            ops.append(["set_formula_raw", p, "lambda %s: None" % ", ".join(ps)])
        elif k == 13:
            q = draw(st.sampled_from(paths))
            q2 = draw(st.sampled_from(paths))
            if q != p:
                # (one base, or two bases whose members may clash with each other)
                bs = [q] if q2 in (q, p) or draw(st.booleans()) else [q, q2]
                ops.append(["new_space_raw", p, n, bs, None])
                if len(paths) < 7:
                    paths.append(p + [n])
        elif k == 14:
            if draw(st.booleans()):
                ops.append(["set_formula_raw", p, "lambda p: {'refs': {%r: p}}" % n])
            else:
                # the instances are built on another space: the returned reference must not clash with its members
                q = draw(st.sampled_from(paths))
                ops.append(["set_formula_raw", p, "lambda p: {'base': _model.%s, 'refs': {%r: p}}" % (".".join(q), n), q])
        elif k == 18:
            # automatic names (CellsN / SpaceN) meeting members that already carry such a name in the chain
            if draw(st.booleans()):
                ops.append(["new_cells_raw", p, None, "lambda: 1"])
            else:
                ops.append(["new_space_raw", p, None, None, None])
        elif k == 19:
            # a new space that gets bases and references in one request
            q = draw(st.sampled_from(paths))
            ops.append(["new_space_raw", p, draw(st.sampled_from(POOL)), [q] if q != p else None, None,
                        {n: draw(st.integers(20, 29))}])
        elif k == 20:
            q = draw(st.sampled_from(paths))
            ops.append(["new_space_raw", [], draw(st.sampled_from(["T1", "T2"])), [q], None, {n: draw(st.integers(30, 39))}])
        elif k == 16:
            # object-valued reference in any mode (relative ones make later derivations fail part-way)
            q = draw(st.sampled_from(paths))
            ops.append(["set_ref", p, n, ["o", q], draw(st.sampled_from(["auto", "relative", "absolute"]))])
        elif k == 17:
            # a base with a resolvable (auto, to its own child) and an unresolvable (relative, to a sibling)
            # reference, then a new space elsewhere deriving from it: rejected after part of the derivation ran
            kids = [q for q in paths if q[:-1] == p]
            sibs = [q for q in paths if q[:-1] == p[:-1] and q != p]
            others = [q for q in paths if q[:len(p)] != p and q != p[:-1]]
            if sibs and others:
                names = draw(st.permutations(POOL))
                if kids:
                    ops.append(["set_ref", p, names[0], ["o", draw(st.sampled_from(kids))], "auto"])
                ops.append(["set_ref", p, names[1], ["o", draw(st.sampled_from(sibs))], "relative"])
                ops.append(["new_space_raw", draw(st.sampled_from(others)), names[2], [p], None])
        else:
            ops.append(["probe_items", p])
    return {"ops": ops}


def strategy(tier):
    return histories()


def names_in_chain(real, path, name):
    """kinds under which ``name`` is in use in the space, its bases and its subs"""
    kinds = set()
    try:
        sp = real.space(path)
    except Exception:
        return kinds
    related = [sp] + list(sp.bases)
    for t in real.all_static_spaces():
        if sp in t.bases:
            related.append(t)
    for t in related:
        if name in t.cells:
            kinds.add("cells")
        if name in t._own_refs:
            kinds.add("ref")
        if name in t.spaces:
            kinds.add("space")
    return kinds


def check_space(sp, model, label, base=None):
    if base is not None:
        # an ItemSpace of ``base``: the space-level references of the base take precedence over model-level ones
        # there too (names bound by the parameters or by references the parameter formula returns excepted)
        skip = set(base.parameters or ()) | set(sp._own_refs)
        for n, v in base._own_refs.items():
            if n in model.refs and n not in skip and type(v) is int and type(model.refs[n]) is int:
                try:
                    got = getattr(sp, n)
                except Exception as exc:
                    return ("getattr-raised", "%s: getattr(%r) raised %r" % (label, n, exc))
                if got != v:
                    return ("getattr-precedence", "%s.%s = %r, the space-level reference of the base is %r (model-level "
                                                  "%r)" % (label, n, got, v, model.refs[n]))
    cells = set(sp.cells)
    own = set(sp._own_refs)
    spaces = set(sp.spaces)
    for a, b, na, nb in ((cells, own, "cells", "own references"), (cells, spaces, "cells", "child spaces"),
                         (own, spaces, "own references", "child spaces")):
        if a & b:
            return ("name-two-kinds", "%s: %r denote both %s and %s" % (label, sorted(a & b), na, nb))
    refs = set(sp.refs)
    want = (cells | refs | spaces) - {"__builtins__"}
    got = set(dir(sp)) - {"__builtins__"}
    if got != want:
        return ("dir-mismatch", "%s: dir() %r vs containers %r (only in dir: %r, missing from dir: %r)" % (
            label, len(got), len(want), sorted(got - want), sorted(want - got)))
    if PROBE in sp.cells:
        seen = None
        try:
            seen = set(sp.cells[PROBE]()) - {"__builtins__"}
        except Exception as exc:
            err = mx.get_error() or exc
            if type(err).__name__ != "DeletedObjectError":
                return ("probe-raised", "%s: the probe formula raised %r" % (label, err))
            # (a reference whose target object was deleted makes the namespace unusable: dangling object
            #  references are outside the properties, DESIGN.md 11.2)
        if seen is not None and seen != want:
            return ("formula-namespace", "%s: names visible to formulas differ from the containers: only formulas see "
                                         "%r, formulas do not see %r" % (label, sorted(seen - want), sorted(want - seen)))
    # attribute access: expected kind, space-level references before model-level ones
    for n in want:
        try:
            v = getattr(sp, n)
        except Exception as exc:
            return ("getattr-raised", "%s: getattr(%r) raised %r" % (label, n, exc))
        if n in cells:
            if not isinstance(v, Cells) or v is not sp.cells[n]:
                return ("getattr-kind", "%s.%s should be the cells, got %r" % (label, n, v))
        elif n in spaces and n not in refs:
            # (a model-level reference of the same name wins over a child space in this version; which of the
            #  two should win is not stated by the property and is not asserted)
            if not isinstance(v, BaseSpace) or v is not sp.spaces[n]:
                return ("getattr-kind", "%s.%s should be the child space, got %r" % (label, n, v))
        elif n in own:
            if v is not sp._own_refs[n] and v != sp._own_refs[n]:
                return ("getattr-precedence", "%s.%s = %r, own reference is %r" % (label, n, v, sp._own_refs[n]))
        elif n in refs:
            if v is not sp.refs[n] and v != sp.refs[n]:
                return ("getattr-ref", "%s.%s = %r, refs[%r] = %r" % (label, n, v, n, sp.refs[n]))
    return None


def run_case(case):
    out = Outcome()
    reset_session()
    real = Real("M", hooks=False)
    m = real.m
    nt = False
    itembase = {}       # path of a parametrised space -> path of the space its formula names as base
    for i, op in enumerate(case["ops"]):
        k = op[0]
        if k == "probe_items":
            # look into an ItemSpace if the space is parametrised
            try:
                sp = real.space(op[1])
            except Exception:
                continue
            if sp.parameters:
                try:
                    it = sp(*([1] * len(sp.parameters)))
                except Exception:
                    continue
                base = sp
                if tuple(op[1]) in itembase:
                    try:
                        base = real.space(itembase[tuple(op[1])])
                    except Exception:
                        continue        # (the chosen base is gone: the instance cannot be made any more)
                f = check_space(it, m, "ItemSpace of " + ".".join(op[1]), base=base)
                if f:
                    return out.fail(f[0], f[1], i)
            continue
        # is the requested name in use as another kind nearby?
        want_kind = {"new_cells_raw": "cells", "set_ref_raw": "ref", "new_space_raw": "space",
                     "rename_cells": "cells", "rename_space": "space"}.get(k)
        if want_kind:
            nm = op[3] if k == "rename_cells" else op[2]
            if isinstance(nm, str):
                tgt = op[1][:-1] if k == "rename_space" else op[1]
                kinds = names_in_chain(real, tgt, nm) if tgt else set()
                if kinds - {want_kind}:
                    nt = True
        if k == "set_formula_raw" and len(op) > 3:
            res = real.apply(op[:3])
            if res[0] == "ok":
                itembase[tuple(op[1])] = op[3]
        else:
            res = real.apply(op)
            if res[0] == "ok" and k in ("set_formula_raw", "set_formula"):
                itembase.pop(tuple(op[1]), None)
        out.count("accepted" if res[0] == "ok" else "rejected")
        if res[0] == "ok" and k == "new_space_raw":
            try:
                sp = real.space(op[1] + [op[2]])
                if PROBE not in sp.cells:
                    sp.new_cells(PROBE, "lambda: sorted(globals())", is_cached=False)
            except Exception:
                pass
        # invariants
        msp = set(m.spaces)
        mrefs = set(m.refs)
        if msp & mrefs:
            return out.fail("model-name-two-kinds", "after %r: %r denote both a space and a reference of the model" % (
                op, sorted(msp & mrefs)), i)
        if set(dir(m)) - {"__builtins__"} != (msp | mrefs) - {"__builtins__"}:
            return out.fail("model-dir-mismatch", "after %r: dir(model) %r vs spaces+refs %r" % (
                op, sorted(set(dir(m)) - msp - mrefs), sorted((msp | mrefs) - set(dir(m)))), i)
        for sp in real.all_static_spaces():
            f = check_space(sp, m, sp.fullname.split(".", 1)[1])
            if f:
                return out.fail(f[0], "after %r -> %s: %s" % (op, res[0], f[1]), i)
        try:
            mx.core.mxsys._check_sanity()
            m._impl._check_sanity()
        except AssertionError as a:
            return out.fail("self-check", "library self-check fails after %r -> %s: %r" % (op, res[0], a), i)
        except Exception as exc:
            return out.fail("self-check-raised", "library self-check raised after %r: %r" % (op, exc), i)
    out.nontrivial = nt
    return out
