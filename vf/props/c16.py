"""C16 - memory-optimised runs give the direct results and keep only the targets.

Generator: DAG models (uncached cells, ItemSpace calls, optional pre-assigned
inputs), non-empty target lists (including targets depending on each other,
listed in either order, and targets that are inputs), every step size from 1 to
beyond the number of elements.
Oracle (R + execution log): after generate_actions no calculated value is held;
the calc steps list every cached element the targets depend on exactly once and
callees before callers (reference call graph); after execute_actions each target
holds the value direct evaluation gives, nothing but targets and inputs is held,
and during the run every cached element executed exactly once.
"""

from collections import Counter

from hypothesis import strategies as st

import modelx as mx
from modelx.core.cells import Cells

from .. import gen, ref as R
from ..drive import Real, apply_ref, reset_session, take_ticks, tup, plain_real
from ..memo import MemoSim
from ..runner import Outcome
from .c06 import live_held, elem_of, ensure_spaces

ID = "C16"
LEVEL = "exploration"
DESIGN_REF = "DESIGN.md section 6, C16"
RULE = ("case = generated DAG model + optional assigned inputs + 1-3 targets + step size s in 1..(#elements+2) "
        "(all step sizes are replayed for each case when the DAG has <=12 elements); non-trivial = #elements > s and "
        "some element's dependents fall into a later calc block (so paste/clear bookkeeping matters); distinct = case hash")
ASSUMPTIONS = [
    "the dependency closure and call order come from the reference interpreter (vf/ref.py, vf/memo.py)",
    "uncached cells may execute several times; 'computed once' is asserted for cached elements",
]
SIGNATURES = {}


def plan(tier):
    if tier == "quick":
        return {"shards": 8, "examples": 60, "wall": 100}
    return {"shards": 16, "examples": 900, "wall": 2400}


@st.composite
def cases(draw):
    ops, G, info = gen.gen_dag_model(draw, ncells=(3, 7), items=draw(st.booleans()), handled=False,
                                     none_values=draw(st.booleans()))
    cells = info["cells"]
    hist = []
    # optional inputs
    for _ in range(draw(st.integers(0, 2))):
        p, n, np_ = draw(st.sampled_from(cells))
        cdef = G.find_cells(G.space(tuple(p)), n)[1]
        if cdef.cached and p != ["P"]:
            op = ["set_value", p, n, [draw(st.integers(0, 2))] * np_, draw(st.integers(100, 120))]
            hist.append(op)
            apply_ref(G, op)
    targets = []
    for _ in range(draw(st.integers(1, 3))):
        p, n, np_ = draw(st.sampled_from(cells[len(cells) // 2:] if draw(st.booleans()) else cells))
        cdef = G.find_cells(G.space(tuple(p)), n)[1]
        if not cdef.cached or p == ["P"]:
            continue
        t = [p, n, [draw(st.integers(0, 2))] * np_]
        if t not in targets:
            targets.append(t)
    if not targets:
        p, n, np_ = cells[-1]
        cdef = G.find_cells(G.space(tuple(p)), n)[1]
        if not cdef.cached:
            return {"ops": ops, "targets": [], "step": 1}
        targets = [[p, n, [0] * np_]]
    targets = list(draw(st.permutations(targets)))
    return {"ops": ops + hist, "targets": targets, "step": draw(st.integers(1, 12))}


def strategy(tier):
    return cases()


def node_elem(n):
    obj = n.obj
    if isinstance(obj, Cells):
        return (obj.parent._idtuple[1:], obj.name, n.args)
    return (obj._idtuple[1:], None, n.args)


def run_one(case, step, out):
    reset_session()
    real = Real()
    rm = R.RModel()
    for op in case["ops"]:
        res = real.apply(op)
        if res[0] == "ok":
            apply_ref(rm, op)
    targets = case["targets"]
    # reference: closure of the targets
    sim = MemoSim()
    for (s, n), d in rm.inputs.items():
        for key, v in d.items():
            sim.held.add((s, n, key)); sim.inputs[(s, n, key)] = v
    want = {}
    try:
        for p, n, args in targets:
            exp = R.evaluate(rm, tuple(p), n, tuple(args), held=sim.memory())
            if exp[0] != "ok":
                return None, "skip"
            top = elem_of(rm, tuple(p), n, tuple(args))[0]
            sim.simulate(exp[2], top)
            want[top] = exp[1]
    except R.Budget:
        return None, "skip"
    # ItemSpace instances are containers, not calculated values: the property is about cell values
    closure = {e for e in sim.held if e not in sim.inputs and e[1] is not None}
    inputs = set(sim.inputs)
    tnodes = [real.space(p).cells[n].node(*args) for p, n, args in targets]
    take_ticks()
    try:
        actions = real.m.generate_actions(tnodes, step_size=step)
    except Exception as exc:
        return ("generate-raised", "generate_actions(step_size=%d) raised %r" % (step, exc)), None
    take_ticks()
    # 1. nothing calculated is left behind
    left = {e for e in live_held(real) if e not in inputs and e[1] is not None}
    if left:
        return ("generate-leaves-values", "after generate_actions(step_size=%d) calculated values remain: %r" % (
            step, sorted(left, key=repr)[:5])), None
    # 2. calc steps: every element of the closure exactly once, callees first
    order = []
    for act, nodes in actions:
        if act == "calc":
            order.extend(e for e in (node_elem(n) for n in nodes) if e[1] is not None)
    cnt = Counter(order)
    dup = [e for e, c in cnt.items() if c > 1]
    if dup:
        return ("calc-duplicate", "step_size=%d: %r appear in more than one calc step" % (step, dup[:5])), None
    if set(order) != closure:
        return ("calc-coverage", "step_size=%d: calc steps %r, elements the targets depend on %r (missing %r, extra %r)" % (
            step, len(order), len(closure), sorted(closure - set(order), key=repr)[:5],
            sorted(set(order) - closure, key=repr)[:5])), None
    pos = {e: i for i, e in enumerate(order)}
    for e in order:
        for p_ in sim.pred.get(e, ()):
            if p_ in pos and pos[p_] > pos[e]:
                return ("calc-order", "step_size=%d: %r is calculated before %r which it depends on" % (step, e, p_)), None
    # 3. execute
    take_ticks()
    try:
        real.m.execute_actions(actions)
    except Exception as exc:
        return ("execute-raised", "execute_actions (step_size=%d) raised %r" % (step, mx.get_error() or exc)), None
    ticks = take_ticks()
    held = live_held(real)
    for t, v in want.items():
        if t not in held:
            return ("target-missing", "step_size=%d, targets %r: target %r holds no value after execute_actions" % (
                step, targets, t)), None
        if plain_real(held[t]) != v:
            return ("target-value", "step_size=%d: target %r = %r, direct evaluation gives %r" % (step, t, held[t], v)), None
    extra = {e for e in held if e not in want and e not in inputs and e[1] is not None}
    if extra:
        return ("leftover-values", "step_size=%d, targets %r: values other than targets and inputs remain: %r" % (
            step, targets, sorted(extra, key=repr)[:5])), None
    tc = Counter(ticks)
    twice = []
    for e, c in tc.items():
        if c > 1 and e in closure:
            twice.append((e, c))
    if twice:
        return ("computed-twice", "step_size=%d: cached elements executed more than once during the run "
                                  "(cleared too early): %r" % (step, twice[:5])), None
    # non-trivial?
    n = len(order)
    nt = False
    if n > step:
        for e in order:
            blk = pos[e] // step
            if any(pos[s] // step > blk for s in sim.succ.get(e, ()) if s in pos):
                nt = True
                break
    return None, ("nt" if nt else "t", n)


def enumerate_cases(tier, seed):
    # one target whose evaluation enters thousands of elements (nothing may be dropped from the trace)
    for n, step in ((6000, 2500), (6000, 100000)) + (((15000, 700),) if tier == "thorough" else ()):
        yield {"kind": "big", "n": n, "step": step, "ops": []}


def run_big(case, out):
    reset_session()
    n, step = case["n"], case["step"]
    m = mx.new_model("B")
    s = m.new_space("S")
    s.new_cells("c", "lambda x: c(x - 1) + 1 if x > 0 else 0")
    s.new_cells("t", "lambda: c(%d) + 5" % n)
    mx.set_recursion(100000)
    try:
        target = s.t.node()
        actions = m.generate_actions([target], step_size=step)
        left = len(s.c) + len(s.t)
        if left:
            return out.fail("generate-leaves-values", "generate_actions on a chain of %d elements left %d values" % (n, left))
        calc = [nd for a in actions if a[0] == "calc" for nd in a[1]]
        if len(calc) != len(set(calc)) or len(calc) != n + 2:
            return out.fail("calc-steps", "chain of %d elements + target: %d nodes in calc steps (%d distinct), expected %d" % (
                n, len(calc), len(set(calc)), n + 2))
        m.execute_actions(actions)
        if dict(s.t) != {(): n + 5} or len(s.c) != 0:
            return out.fail("target-value", "after execute_actions: t holds %r (expected {(): %d}), c holds %d values" % (
                dict(s.t), n + 5, len(s.c)))
    finally:
        mx.set_recursion(400)
    out.nontrivial = True
    out.label("big_chain")
    return out


def run_case(case):
    out = Outcome()
    if case.get("kind") == "big":
        return run_big(case, out)
    if not case.get("targets"):
        out.discard = True
        return out
    steps = [case["step"]]
    f, info = run_one(case, case["step"], out)
    if f:
        return out.fail(f[0], f[1])
    if info == "skip":
        out.discard = True
        return out
    nt = info[0] == "nt"
    n = info[1]
    # every step size from 1 to n + 2 when the DAG is small
    if n <= 12:
        for s in range(1, n + 3):
            if s == case["step"]:
                continue
            f, info2 = run_one(case, s, out)
            out.count("step_sizes_replayed")
            if f:
                return out.fail(f[0], f[1], None, step_size=s)
            if info2 != "skip" and info2[0] == "nt":
                nt = True
    out.nontrivial = nt
    out.label("elements=%d" % min(n, 15))
    return out
