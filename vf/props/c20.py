"""C20 - formula capture is faithful and idempotent; rename and doc edits are inert.

Generator: a grammar of function texts (parameters with defaults and
annotations; docstrings in several quotings; comments leading / trailing / after
the last statement; nested defs (also reusing the outer name), lambdas, classes,
comprehensions, multi-line expressions, ';'-joined statements, one-line bodies,
blank lines, 2/4/8-space and tab indentation; 0-2 identity decorators incl.
multi-line ones; lambdas bare, parenthesised, in an assignment, as a call
argument, multi-line) x three delivery forms (source text - optionally indented
as a whole -, function object imported from a generated module file, lambda
object).
Oracle (R = plain Python): the cells returns what the function obtained by
exec-ing the ORIGINAL text returns, with k / h bound as in the space;
cells.parameters == inspect.signature; formula.source compiles on its own to a
function of the cells' name (or is a lambda expression) with the same behaviour;
new_cells(name, source) reproduces source and behaviour; rename changes only the
name token; a doc edit changes only the docstring (or is rejected inertly).
"""

import ast
import importlib
import inspect
import io
import os
import shutil
import sys
import tempfile
import textwrap
import tokenize

from hypothesis import strategies as st

import modelx as mx

from ..drive import reset_session
from ..runner import Outcome

ID = "C20"
LEVEL = "exploration"
DESIGN_REF = "DESIGN.md section 6, C20"
RULE = ("function texts from the grammar in the module docstring x delivery form (source / function object / lambda "
        "object); non-trivial = the text has >=2 of {decorator, comment, docstring, nested scope, multi-line "
        "expression, non-4-space indentation, whole-text indentation}; distinct = case hash")
ASSUMPTIONS = [
    "decorators are identity decorators (modelx strips decorators from the captured formula by design)",
    "positional-or-keyword parameters only; a lambda object that is the second lambda of its source line may be refused "
    "(documented limit of capture from objects) but must not be captured as the other lambda",
]
SIGNATURES = {}


def plan(tier):
    if tier == "quick":
        return {"shards": 8, "examples": 400, "wall": 100}
    return {"shards": 16, "examples": 6000, "wall": 2400}


# ----------------------------------------------------------------------------
# text grammar

DOCS = [None, '"""plain doc"""', "'''single quoted triple'''", '"one line"', "'x'",
        '"""ends with a quote\\""""', '"""multi\n{ind}line doc\n{ind}"""', 'r"""raw \\d doc"""',
        '"two adjacent " "literals"', '("parenthesised "\n{ind} "adjacent literals")']


def gen_stmts(draw, ind, name, params, feats):
    x = params[0] if params else "1"
    out = []
    n = draw(st.integers(0, 5))
    for _ in range(n):
        k = draw(st.integers(0, 16))
        if k == 0:
            out.append(ind + "r = r + %s * 2" % x)
        elif k == 1:
            out.append(ind + "r += k  # trailing comment")
            feats.add("comment")
        elif k == 2:
            out.append(ind + "# a full-line comment, with: colon and 'quotes'")
            feats.add("comment")
        elif k == 3:
            out.append("")
        elif k == 4:
            out += [ind + "if %s > 1:" % x, ind + ind + "r = r - 1", ind + "else:", ind + ind + "r = r + 1"]
        elif k == 5:
            out += [ind + "def inner(z):", ind + ind + "return z + k", ind + "r = inner(r)"]
            feats.add("nested")
        elif k == 6:
            out += [ind + "def %s(z):" % name, ind + ind + "return z * 2", ind + "r = %s(r)" % name]
            feats.add("nested")
        elif k == 7:
            out += [ind + "sq = lambda z: z * z", ind + "r = sq(r) % 97"]
            feats.add("nested")
        elif k == 8:
            out += [ind + "class A:", ind + ind + "w = kc", ind + ind + "def m(self, z):",
                    ind + ind + ind + "return z + self.w", ind + "r = A().m(r)"]
            feats.add("nested")
        elif k == 9:
            out.append(ind + "r = sum([i * %s for i in range(3)]) + r" % x)
            feats.add("nested")
        elif k == 10:
            out += [ind + "r = (r +", ind + "     h(1) +", ind + "  2)"]
            feats.add("multiline")
        elif k == 11:
            out.append(ind + "a = 1; b = 2; r = r + a + b")
        elif k == 12:
            out += [ind + "r = r + len([", ind + ind + "1,", ind + ind + "2,", ind + "])"]
            feats.add("multiline")
        elif k == 13:
            out.append(ind + "r = r + h(%s)" % x)
        elif k == 14:
            out += [ind + "@_ident", ind + "def dec_inner(z):", ind + ind + "return z + 3", ind + "r = dec_inner(r)"]
            feats.add("nested"); feats.add("decorator")
        elif k == 15:
            out += [ind + "class B:", ind + ind + "@property", ind + ind + "def p(self):", ind + ind + ind + "return 11",
                    ind + ind + "@staticmethod", ind + ind + "def s(z):", ind + ind + ind + "return z * 2",
                    ind + "r = B().p + B.s(r)"]
            feats.add("nested"); feats.add("decorator")
        else:
            out += [ind + "@_identf(1,", ind + "         2)", ind + "def dec2(z):", ind + ind + "return z - 1",
                    ind + "r = dec2(r)"]
            feats.add("nested"); feats.add("decorator")
    return out


@st.composite
def def_text(draw):
    feats = set()
    name = draw(st.sampled_from(["f", "g", "foo_1"]))
    nparams = draw(st.integers(0, 2))
    forms = ["{p}", "{p}=2", "{p}: int", "{p}: int = 3"]
    params, psrc, seen_default = [], [], False
    for p in ["x", "y"][:nparams]:
        f = draw(st.sampled_from(forms))
        if seen_default and "=" not in f:
            f = "{p}=1"
        seen_default = seen_default or "=" in f
        params.append(p)
        psrc.append(f.format(p=p))
    ind = draw(st.sampled_from(["    ", "    ", "  ", "        ", "\t"]))
    if ind != "    ":
        feats.add("indent")
    lines = []
    if draw(st.integers(0, 5)) == 0:
        lines.append("# a comment line before the definition")
        feats.add("comment")
    ndeco = draw(st.integers(0, 2))
    for _ in range(ndeco):
        d = draw(st.sampled_from(["@_ident", "@_identf(1, 2)", "@_identf(\n    1,\n    2\n)", "@_ident  # deco comment"]))
        lines += d.split("\n")
        feats.add("decorator")
        if draw(st.integers(0, 5)) == 0:
            lines.append("# a comment between the decorator and the definition")
            feats.add("comment")
    ret = draw(st.sampled_from(["", " -> int"]))
    oneline = draw(st.integers(0, 7)) == 0
    if oneline:
        expr = draw(st.sampled_from(["k", "%s + k" % (params[0] if params else "1"), "h(2) + k", "[i for i in range(k)][-1]"]))
        lines.append("def %s(%s)%s: return %s" % (name, ", ".join(psrc), ret, expr))
        text = "\n".join(lines) + "\n"
        return {"kind": "def", "text": text, "name": name, "params": params, "feats": sorted(feats), "oneline": True}
    head = "def %s(%s)%s:" % (name, ", ".join(psrc), ret)
    if draw(st.integers(0, 5)) == 0:
        head += "  # comment after the colon"
        feats.add("comment")
    lines.append(head)
    doc = draw(st.sampled_from(DOCS))
    dz = False
    if doc is not None:
        lines += (ind + doc.replace("{ind}", ind)).split("\n")
        feats.add("docstring")
        tailkind = draw(st.integers(0, 5))
        if tailkind == 0:
            lines[-1] += "; dz = 7"            # a statement on the physical line the docstring ends on
            dz = True
            feats.add("semicolon")
        elif tailkind == 1:
            lines[-1] += "  # comment after the docstring"
            feats.add("comment")
    lines.append(ind + "r = %s" % (" + ".join(params) if params else "k"))
    lines += gen_stmts(draw, ind, name, params, feats)
    last = ind + ("return r + dz" if dz else "return r")
    tail = draw(st.integers(0, 4))
    if tail == 0:
        last += "  # comment on the last line"
        feats.add("comment")
    lines.append(last)
    if tail == 1:
        lines.append(ind + "# comment after the last statement")
        feats.add("comment")
    text = "\n".join(lines) + "\n"
    return {"kind": "def", "text": text, "name": name, "params": params, "feats": sorted(feats), "oneline": False}


@st.composite
def lambda_text(draw):
    feats = set()
    nparams = draw(st.integers(0, 2))
    psrc = ["x", "y=2"][:nparams]
    params = ["x", "y"][:nparams]
    body = draw(st.sampled_from([
        "k", "{x} + k", "h({x}) * 2", "[i + k for i in range(3)][{x} % 3]", "(lambda z: z + 1)({x}) + k",
        "{x} if {x} > 1 else k", "max({x}, k)", "({x},\n     k)[1]", "{x} + (k\n  + 1)",
        "{x} +\n     k", "{x} +  # a comment inside the lambda\n     k",
        "len(\"\"\"ab\n        cd\"\"\") + {x}", "({x} +  # comment\n k)",
        # the continuation line starts in column 0 and could start a statement of its own
        "{x} * 2\n+ k", "{x}\n- k"]))
    body = body.format(x=params[0] if params else "1")
    if "\n" in body:
        feats.add("multiline")
    if "lambda z" in body:
        feats.add("nested")
    lam = "lambda %s: %s" % (", ".join(psrc), body)
    wrap = draw(st.sampled_from(["bare", "paren", "assign", "callarg", "assign_paren_ml"]))
    if wrap == "bare":
        text = lam if "\n" not in body else "(" + lam + ")"
    elif wrap == "paren":
        text = "(" + lam + ")"
    elif wrap == "assign":
        text = "fn = " + (lam if "\n" not in body else "(" + lam + ")")
        feats.add("embedded")
    elif wrap == "callarg":
        text = "_ident(" + lam + ")"
        if "+\n" in body:
            text = "_ident((" + lam + "))"
        feats.add("embedded")
    else:
        text = "fn = (\n    " + lam + "\n)"
        feats.add("embedded"); feats.add("multiline")
    return {"kind": "lambda", "text": text, "name": "lam", "params": params, "feats": sorted(feats), "wrap": wrap}


@st.composite
def cases(draw):
    t = draw(st.one_of(def_text(), def_text(), lambda_text()))
    if t["kind"] == "def":
        t["delivery"] = draw(st.sampled_from(["source", "source", "source_indented", "funcobj"]))
        t["given_name"] = draw(st.sampled_from([None, None, "renamed_at_creation"]))
    else:
        t["delivery"] = draw(st.sampled_from(["source", "lambdaobj"]))
        if "lambda z" in t["text"]:
            t["delivery"] = "source"    # two lambdas on one source line: documented limit of capture from objects
        elif t["delivery"] == "lambdaobj" and "\n" not in t["text"] and not t["text"].startswith("fn = ") \
                and draw(st.integers(0, 5)) == 0:
            # ... offered all the same, as the SECOND lambda of its line: refusing is fine, capturing the other
            # lambda is not
            t["two_on_line"] = True
        t["given_name"] = "lam"
    if t["delivery"] == "lambdaobj" and not t.get("two_on_line") and draw(st.integers(0, 3)) == 0:
        t["rewrite"] = True
    if t["delivery"] == "source_indented":
        t["feats"] = sorted(set(t["feats"]) | {"whole-indent"})
    t["args"] = [[draw(st.integers(0, 4)) for _ in t["params"]] for _ in range(3)]
    t["new_doc"] = draw(st.sampled_from(["a new doc", "another one, with: punctuation", "line one\nline two",
                                         "with 'single' quotes", "a backslash \\n inside", 'ends with a quote"',
                                         'has "double" quotes', "unicode \u00e9\u4e2d", 'ends with three quotes"""',
                                         '"""', 'both \'\'\' and """ inside']))
    return t


def strategy(tier):
    return cases()


# ----------------------------------------------------------------------------

def _ident(f):
    return f


def _identf(*a):
    return _ident


def plain_h(x):
    return x * 10 + 1


GLOBALS = {"k": 7, "kc": 3, "_ident": _ident, "_identf": _identf}


def reference_function(case):
    """the plain Python function denoted by the original text"""
    ns = dict(GLOBALS)
    ns["h"] = plain_h
    if case["kind"] == "def":
        exec(compile(case["text"], "<original>", "exec"), ns)
        return ns[case["name"]]
    text = case["text"]
    if text.startswith("fn = "):
        exec(compile(text, "<original>", "exec"), ns)
        return ns["fn"]
    return eval(compile(text, "<original>", "eval"), ns)


def outcome(f, args):
    try:
        return ("ok", f(*args))
    except Exception as exc:
        return ("err", type(exc).__name__)


def cells_outcome(c, args):
    try:
        return ("ok", c(*args))
    except mx.core.errors.FormulaError:
        return ("err", type(mx.get_error()).__name__)
    except Exception as exc:
        return ("err", type(exc).__name__)


def standalone(source, name, is_lambda):
    ns = dict(GLOBALS)
    ns["h"] = plain_h
    if is_lambda:
        return eval(compile(source, "<captured>", "eval"), ns)
    exec(compile(source, "<captured>", "exec"), ns)
    return ns[name]


def rename_expected(source, new):
    """source with only the NAME token after the first 'def' replaced"""
    toks = list(tokenize.generate_tokens(io.StringIO(source).readline))
    lines = source.splitlines(True)
    for i, t in enumerate(toks):
        if t.type == tokenize.NAME and t.string == "def":
            nt = toks[i + 1]
            r, c0 = nt.start
            c1 = nt.end[1]
            lines[r - 1] = lines[r - 1][:c0] + new + lines[r - 1][c1:]
            break
    return "".join(lines)


def body_without_doc(source):
    tree = ast.parse(textwrap.dedent(source))
    fn = tree.body[0]
    body = fn.body
    if body and isinstance(body[0], ast.Expr) and isinstance(getattr(body[0], "value", None), ast.Constant) \
            and isinstance(body[0].value.value, str):
        body = body[1:]
    return [ast.dump(b) for b in body], ast.dump(fn.args)


_modcount = [0]


def run_case(case):
    out = Outcome()
    reset_session()
    tmp = None
    try:
        ref = reference_function(case)
    except Exception as exc:
        out.discard = True      # the generator produced something Python itself rejects
        out.info["gen_error"] = repr(exc)
        return out
    m = mx.new_model("F")
    m._ident = _ident           # decorators of nested definitions resolve like any other global name
    m._identf = _identf
    s = m.new_space("S")
    s.k = GLOBALS["k"]
    s.kc = GLOBALS["kc"]        # a reference that formulas read only in a class body (a name load, not a global load)
    s.new_cells("h", "lambda x: x * 10 + 1")
    is_lambda = case["kind"] == "lambda"
    name = case["given_name"] if case["given_name"] else case["name"]
    try:
        delivery = case["delivery"]
        try:
            if delivery in ("source", "source_indented"):
                text = case["text"]
                if delivery == "source_indented":
                    text = textwrap.indent(text, "      ")
                c = s.new_cells(name, text)
            else:
                tmp = tempfile.mkdtemp(prefix="vfc20_")
                _modcount[0] += 1
                modname = "vfc20mod_%d_%d" % (os.getpid(), _modcount[0])
                src = "k = 7\n\ndef _ident(f):\n    return f\n\ndef _identf(*a):\n    return _ident\n\ndef h(x):\n    return x * 10 + 1\n\n"
                if is_lambda and case.get("two_on_line"):
                    src += "fn0, fn = (lambda x=0, y=0: x + 1000), (" + case["text"] + ")\n"
                elif is_lambda:
                    t = case["text"]
                    src += (t if t.startswith("fn = ") else "fn = " + t) + "\n"
                else:
                    src += case["text"]
                mpath = os.path.join(tmp, modname + ".py")
                if is_lambda and case.get("rewrite"):
                    # the module first holds another lambda at the same place (same number of lines); a cells is
                    # made from it, then the file is rewritten and the module reloaded
                    decoy = src[:src.rindex("fn = ") if "fn0, fn" not in src else src.rindex("fn0, fn")]
                    decoy += "fn = lambda x=0, y=0: 12345" + "\n" * (src.count("\n") - decoy.count("\n"))
                    with open(mpath, "w") as f:
                        f.write(decoy)
                    sys.path.insert(0, tmp)
                    try:
                        mod = importlib.import_module(modname)
                        s.new_cells("decoy", mod.fn)
                        with open(mpath, "w") as f:
                            f.write(src)
                        st_ = os.stat(mpath)
                        os.utime(mpath, (st_.st_atime + 10, st_.st_mtime + 10))
                        importlib.invalidate_caches()
                        mod = importlib.reload(mod)
                    finally:
                        sys.path.remove(tmp)
                else:
                    with open(mpath, "w") as f:
                        f.write(src)
                    sys.path.insert(0, tmp)
                    try:
                        mod = importlib.import_module(modname)
                    finally:
                        sys.path.remove(tmp)
                func = getattr(mod, "fn" if is_lambda else case["name"])
                c = s.new_cells(name, func)
        except Exception as exc:
            if case.get("two_on_line") and isinstance(exc, ValueError):
                out.label("two_lambdas_refused")
                return out
            return out.fail("capture-rejected", "%s delivery of\n%s\nraised %r" % (delivery, case["text"], exc))
        # 1. behaviour and parameters
        if list(c.parameters) != list(inspect.signature(ref).parameters):
            return out.fail("parameters", "cells.parameters %r, signature %r for\n%s" % (
                c.parameters, list(inspect.signature(ref).parameters), case["text"]))
        for args in case["args"]:
            a, b = cells_outcome(c, args), outcome(ref, args)
            if a != b:
                return out.fail("behaviour", "cells%r -> %r, plain function -> %r for\n%s\ncaptured source:\n%s" % (
                    tuple(args), a, b, case["text"], c.formula.source))
        # 2. formula.source is a self-contained definition under the cells' name
        source = c.formula.source
        try:
            f2 = standalone(source, name, is_lambda)
        except Exception as exc:
            return out.fail("source-not-standalone", "formula.source does not compile on its own (%r):\n%s" % (exc, source))
        for args in case["args"]:
            if outcome(f2, args) != outcome(ref, args):
                return out.fail("source-behaviour", "formula.source behaves differently:\n%s\noriginal:\n%s" % (
                    source, case["text"]))
        # 3. idempotence
        s2 = m.new_space("T")
        s2.k = GLOBALS["k"]
        s2.kc = GLOBALS["kc"]
        s2.new_cells("h", "lambda x: x * 10 + 1")
        try:
            c2 = s2.new_cells(name, source)
        except Exception as exc:
            return out.fail("source-not-reusable", "new_cells(%r, formula.source) raised %r for\n%s" % (name, exc, source))
        if c2.formula.source != source:
            return out.fail("idempotence", "re-captured source differs:\n%r\nvs\n%r" % (c2.formula.source, source))
        for args in case["args"]:
            if cells_outcome(c2, args) != outcome(ref, args):
                return out.fail("idempotence-behaviour", "cells re-created from formula.source behaves differently:\n%s" % source)
        # 4. rename changes only the name
        doc_before = c.doc
        c.rename("zz9")
        src_r = c.formula.source
        if is_lambda:
            if src_r != source:
                return out.fail("rename-changes-lambda", "lambda source changed by rename:\n%r\n%r" % (source, src_r))
        else:
            want = rename_expected(source, "zz9")
            if src_r.rstrip("\n") != want.rstrip("\n"):
                return out.fail("rename-source", "after rename the source is\n%s\nexpected only the name to change:\n%s" % (
                    src_r, want))
        if c.doc != doc_before:
            return out.fail("rename-doc", "doc changed by rename: %r -> %r" % (doc_before, c.doc))
        if c.name != "zz9" or "zz9" not in s.cells:
            return out.fail("rename-name", "cells is named %r" % c.name)
        for args in case["args"]:
            if cells_outcome(c, args) != outcome(ref, args):
                return out.fail("rename-behaviour", "behaviour changed by rename:\n%s" % src_r)
        # 5. doc edit changes only the docstring
        before_src = c.formula.source
        try:
            c.doc = case["new_doc"]
            raised = None
        except Exception as exc:
            raised = exc
        if raised is not None:
            if c.formula.source != before_src:
                return out.fail("doc-edit-not-inert", "rejected doc edit (%r) changed the source" % (raised,))
            plain = not is_lambda and not case.get("oneline")     # (any text can be quoted as a docstring)
            if plain:
                return out.fail("doc-edit-rejected", "doc = %r raised %r on\n%s" % (case["new_doc"], raised, before_src))
            out.label("doc_edit_rejected:" + ("oneline" if case.get("oneline") else repr(case["new_doc"])[:14]))
        else:
            if c.doc != case["new_doc"]:
                return out.fail("doc-value", "doc set to %r reads back %r" % (case["new_doc"], c.doc))
            if list(c.parameters) != list(inspect.signature(ref).parameters):
                return out.fail("doc-edit-parameters", "parameters changed by doc edit")
            if not is_lambda:
                try:
                    if body_without_doc(c.formula.source) != body_without_doc(before_src):
                        return out.fail("doc-edit-body", "doc edit changed more than the docstring:\n%s\nwas\n%s" % (
                            c.formula.source, before_src))
                except SyntaxError as exc:
                    return out.fail("doc-edit-breaks-source", "after doc edit the source does not parse (%r):\n%s" % (
                        exc, c.formula.source))
            elif c.formula.source != before_src:
                return out.fail("doc-edit-lambda-source", "doc edit changed a lambda's source")
            for args in case["args"]:
                if cells_outcome(c, args) != outcome(ref, args):
                    return out.fail("doc-edit-behaviour", "behaviour changed by doc edit:\n%s" % c.formula.source)
    finally:
        if tmp:
            shutil.rmtree(tmp, ignore_errors=True)
    feats = set(case["feats"])
    out.nontrivial = len(feats) >= 2
    for f in feats:
        out.label(f)
    out.label("delivery:" + case["delivery"])
    return out
