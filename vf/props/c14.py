"""C14 - saving never loses the last good save; failed saves and loads leave no residue.

Fault enumeration: a process-wide audit hook (vf/faults.py) counts every
file-system event under the scratch root while write_model / read_model runs
(the zip staging directory is redirected into the scratch root); the operation
is repeated from a restored snapshot with an OSError raised at the k-th event,
for EVERY k.  Also: sequences of consecutive failed saves followed by a good
one, pickling faults (a value whose __reduce__ / __setstate__ raises on demand),
and a corruption sweep over the saved files for loads.
Oracle (I): after every save attempt the newest completely written version
(complete = its public description equals the model's at that save) is at the
path or at its first backup; readable backups are in non-increasing version
order; after a successful save the destination holds the new version and, when no
failure intervened, _BAK1 the previous one; a zip destination is always a
complete archive; serializing flags are reset; mx.get_models() is what it was
(a failed load registers nothing); a following un-faulted save and load succeed
and round-trip.
"""

import os
import pickle
import shutil
import tempfile
import zipfile

from hypothesis import strategies as st

import modelx as mx

from .. import gen
from ..describe import model_desc, diff
from ..drive import Real, reset_session, EDIT_OPS
from ..faults import INJECTOR
from ..runner import Outcome

ID = "C14"
LEVEL = "fault_enumeration"
DESIGN_REF = "DESIGN.md section 6, C14"
RULE = ("case = generated model x container format x number of earlier good saves (0-4) x mode (every-k save faults | "
        "sequence of 2-3 consecutive faulted saves then a good one | every-k load faults | corruption sweep | pickling "
        "fault on save | on load); every file-system event of the operation is a fault point in the every-k modes; "
        "non-trivial = a fault that aborted the operation after at least one file of the new save had been written while "
        "the destination already held a save (or, for loads, after the model object had been created); distinct = case "
        "hash")
ASSUMPTIONS = [
    "faults are exceptions at operation boundaries (audit events); torn writes inside one write() are not simulated",
    "completeness of a copy is judged by reading it and comparing the public description",
]
SIGNATURES = {}

FEAT = gen.Feat(inherit=True, items=False, uncached=True, objrefs=True, shadow=False, max_top=2, max_child=1,
                max_cells=2, max_rank=3, depth=1, tick=False)
MODES = ["save_all_k", "save_all_k", "save_all_k_perm", "save_seq", "save_seq", "load_all_k", "corrupt", "pickle_save",
         "pickle_load"]


def plan(tier):
    if tier == "quick":
        return {"shards": 8, "examples": 45, "wall": 110}
    return {"shards": 16, "examples": 600, "wall": 2400}


@st.composite
def cases(draw):
    mode = draw(st.sampled_from(MODES))
    use_zip = draw(st.booleans())
    prior = draw(st.integers(0, 4))
    fr = [draw(st.integers(0, 999)) for _ in range(draw(st.integers(2, 3)))]
    ops, G = gen.gen_model_ops(draw, FEAT)
    if draw(st.booleans()):
        sp = G.all_spaces()[0]
        cs = [n for n in sp.cells if sp.cells[n].cached]
        if cs:
            n = cs[0]
            ops.append(["set_value", list(sp.path), n, [0] * len(sp.cells[n].params), 77])
    if draw(st.booleans()):
        # data with an IOSpec: its file is written in a separate phase of the save
        sp = draw(st.sampled_from(G.all_spaces()))
        ops.append(["new_pandas", list(sp.path), "pd0", draw(st.sampled_from(["data/pd0.csv", "pd0.xlsx"])),
                    draw(st.sampled_from(["df", "ser"]))])
        if draw(st.booleans()):
            ops.append(["new_pandas", [], "pd1", "top/pd1.csv", "df"])
    return {"ops": ops, "mode": mode, "zip": use_zip, "prior": prior, "fractions": fr}


def strategy(tier):
    return cases()


# ----------------------------------------------------------------------------

class Touchy:
    """a picklable value whose pickling / unpickling fails on demand"""
    fail_reduce = False
    fail_setstate = False

    def __init__(self, v):
        self.v = v

    def __reduce__(self):
        if Touchy.fail_reduce == "base":
            raise Interrupt("injected interruption while pickling")
        if Touchy.fail_reduce:
            raise pickle.PicklingError("injected pickling fault")
        return (_make_touchy, (self.v,))

    def __eq__(self, other):
        return isinstance(other, Touchy) and other.v == self.v

    def __repr__(self):
        return "Touchy(%r)" % (self.v,)


class Interrupt(BaseException):
    """stands for KeyboardInterrupt / SystemExit arriving in the middle of a save or load"""


def _make_touchy(v):
    if Touchy.fail_setstate == "base":
        raise Interrupt("injected interruption while unpickling")
    if Touchy.fail_setstate:
        raise pickle.UnpicklingError("injected unpickling fault")
    return Touchy(v)


def suffix(dest, i):
    return dest if i == 0 else dest + "_BAK%d" % i


def probe(path, expected, out):
    """(version, complete) of the copy at path, or None if absent / unreadable"""
    if not os.path.exists(path):
        return None
    before = set(mx.get_models())
    try:
        m = mx.read_model(path, name="Probe")
    except Exception:
        leaked = set(mx.get_models()) - before
        if leaked:
            for n in leaked:
                mx.get_models()[n].close()
            return ("LEAK", sorted(leaked))
        return None
    try:
        ver = m.ver if "ver" in m.refs else None
        complete = ver in expected and diff(expected[ver], model_desc(m)) is None
        return (ver, complete)
    finally:
        m.close()


def session_clean(models_before):
    s = mx.core.mxsys
    bad = []
    if s.serializing is not None:
        bad.append("mxsys.serializing is not reset")
    if getattr(s.iomanager, "serializing", None):
        bad.append("iomanager.serializing is not reset")
    now = set(mx.get_models())
    if now != models_before:
        bad.append("registered models changed: %r -> %r" % (sorted(models_before), sorted(now)))
    return bad


def check_copies(dest, completed, expected, after_success, clean_history, is_zip, out):
    """returns None or (oracle, detail)"""
    found = []
    for i in range(0, 5):
        p = suffix(dest, i)
        r = probe(p, expected, out)
        if r is not None and r[0] == "LEAK":
            return ("probe-load-leaks-model", "a failed load of %s left models %r registered" % (os.path.basename(p), r[1]))
        found.append(r)
    if os.path.exists(suffix(dest, 4)):
        return ("too-many-backups", "%s exists (more than three backups)" % os.path.basename(suffix(dest, 4)))
    newest = completed[-1] if completed else None
    if newest is not None:
        ok = any(f is not None and f[0] == newest and f[1] for f in found[:2])
        if not ok:
            return ("last-good-save-lost", "the newest completely written version %r is neither at the path nor at "
                                           "_BAK1; copies found (version, complete): %r" % (newest, found))
    vers = [f[0] for f in found if f is not None and f[1]]
    if any(a < b for a, b in zip(vers, vers[1:])):
        return ("backup-order", "complete copies are not in non-increasing version order: %r" % (found,))
    if is_zip and os.path.exists(dest):
        if os.path.isdir(dest) or not zipfile.is_zipfile(dest) or found[0] is None or not found[0][1]:
            return ("partial-zip", "the zip destination is not a complete archive: %r" % (found[0],))
    if after_success:
        if found[0] is None or found[0][0] != newest or not found[0][1]:
            return ("successful-save-not-at-path", "after a successful save the path holds %r, expected version %r" % (
                found[0], newest))
        if clean_history and len(completed) >= 2:
            want = list(reversed(completed[:-1]))[:3]
            got = [f[0] if f else None for f in found[1:1 + len(want)]]
            if got != want:
                return ("backup-generations", "after a successful save backups hold %r, expected %r" % (got, want))
    return None


def run_case(case):
    out = Outcome()
    reset_session()
    root = tempfile.mkdtemp(prefix="vfc14_")
    Touchy.fail_reduce = Touchy.fail_setstate = False
    try:
        return _run(case, out, root)
    finally:
        Touchy.fail_reduce = Touchy.fail_setstate = False
        INJECTOR.active = False
        shutil.rmtree(root, ignore_errors=True)


def _run(case, out, root):
    work = os.path.join(root, "w")
    os.makedirs(work)
    is_zip = bool(case["zip"])
    dest = os.path.join(work, "model.zip" if is_zip else "model")
    real = Real("M", hooks=False)
    for op in case["ops"]:
        if op[0] in EDIT_OPS:
            real.apply(op)
    m = real.m
    m.touchy = Touchy(5)
    expected = {}
    completed = []

    def save(arm_at=None):
        def fn():
            if is_zip:
                m.zip(dest)
            else:
                m.write(dest)
        # mode save_all_k_perm: the file of the k-th operation keeps refusing (PermissionError) until the save ends
        return INJECTOR.run(work, fn, arm_at, persistent=(case["mode"] == "save_all_k_perm" and arm_at is not None))

    def stamp(v):
        m.ver = v
        expected[v] = model_desc(m)

    ver = 0
    for _ in range(case["prior"]):
        ver += 1
        stamp(ver)
        _, exc, _, _ = save()
        if exc is not None:
            return out.fail("unfaulted-save-failed", "save #%d raised %r" % (ver, exc))
        completed.append(ver)
    models_before = set(mx.get_models())
    f = check_copies(dest, completed, expected, bool(completed), True, is_zip, out)
    if f:
        return out.fail(f[0], "before any fault: " + f[1])
    mode = case["mode"]
    nt = False

    def snapshot():
        snap = os.path.join(root, "snap")
        shutil.rmtree(snap, ignore_errors=True)
        shutil.copytree(work, snap)
        return snap

    def restore(snap):
        shutil.rmtree(work, ignore_errors=True)
        shutil.copytree(snap, work)

    def wrote_new_file(log):
        return any(ev == "open" and md and ("w" in str(md) or "x" in str(md) or "a" in str(md)) for ev, _, md in log[:-1])

    if mode in ("save_all_k", "save_all_k_perm"):
        ver += 1
        stamp(ver)
        snap = snapshot()
        _, exc, n, _ = save()
        if exc is not None:
            return out.fail("unfaulted-save-failed", "save raised %r" % (exc,))
        out.count("events_per_save", n)
        for k in range(1, n + 1):
            restore(snap)
            _, exc, _, fired = save(arm_at=k)
            out.count("faulted_saves")
            # "completely written" is a fact about the copy, whether or not the call reported an error
            at_dest = probe(dest, expected, out)
            done = completed + ([ver] if (exc is None or at_dest == (ver, True)) else [])
            if exc is not None and completed and wrote_new_file(INJECTOR.log):
                nt = True
            bad = session_clean(models_before)
            if bad:
                return out.fail("session-residue", "fault at event %d %r of a save: %s" % (k, fired, "; ".join(bad)), None, k=k)
            f = check_copies(dest, done, expected, exc is None, True, is_zip, out)
            if f:
                return out.fail(f[0], "fault at event %d/%d %r (save %s): %s" % (
                    k, n, fired, "raised %r" % (exc,) if exc is not None else "completed", f[1]), None, k=k)
        restore(snap)
        _, exc, _, _ = save()
        if exc is not None:
            return out.fail("later-save-failed", "an un-faulted save after the faults raised %r" % (exc,))
        completed.append(ver)
    elif mode == "save_seq":
        clean = True
        for fr in case["fractions"]:
            ver += 1
            stamp(ver)
            snap = snapshot()
            _, exc0, n, _ = save()
            restore(snap)
            if exc0 is not None:
                return out.fail("unfaulted-save-failed", "save raised %r" % (exc0,))
            k = 1 + fr * n // 1000
            _, exc, _, fired = save(arm_at=k)
            out.count("faulted_saves")
            at_dest = probe(dest, expected, out)
            if exc is None or at_dest == (ver, True):
                completed.append(ver)
            if exc is not None:
                clean = False
                if completed and wrote_new_file(INJECTOR.log):
                    nt = True
            bad = session_clean(models_before)
            if bad:
                return out.fail("session-residue", "fault at event %d %r: %s" % (k, fired, "; ".join(bad)))
            f = check_copies(dest, completed, expected, exc is None, clean, is_zip, out)
            if f:
                return out.fail(f[0], "after consecutive faulted saves (this one: event %d/%d %r, %s): %s" % (
                    k, n, fired, "raised" if exc is not None else "completed", f[1]))
        ver += 1
        stamp(ver)
        _, exc, _, _ = save()
        if exc is not None:
            return out.fail("later-save-failed", "an un-faulted save after failed saves raised %r" % (exc,))
        completed.append(ver)
        f = check_copies(dest, completed, expected, True, False, is_zip, out)
        if f:
            return out.fail(f[0], "good save after failed ones: " + f[1])
    elif mode == "pickle_save":
        ver += 1
        stamp(ver)
        Touchy.fail_reduce = "base" if case["fractions"][0] % 2 else True
        _, exc, _, _ = save()
        Touchy.fail_reduce = False
        out.count("faulted_saves")
        if exc is None:
            return out.fail("pickling-fault-ignored", "a value that cannot be pickled was saved without error")
        if completed:
            nt = True
        bad = session_clean(models_before)
        if bad:
            return out.fail("session-residue", "pickling fault on save: %s" % "; ".join(bad))
        f = check_copies(dest, completed, expected, False, True, is_zip, out)
        if f:
            return out.fail(f[0], "after a pickling fault on save: " + f[1])
        _, exc, _, _ = save()
        if exc is not None:
            return out.fail("later-save-failed", "save after a pickling fault raised %r" % (exc,))
        completed.append(ver)
    else:
        # load modes need a saved copy
        if not completed:
            ver += 1
            stamp(ver)
            _, exc, _, _ = save()
            if exc is not None:
                return out.fail("unfaulted-save-failed", "save raised %r" % (exc,))
            completed.append(ver)
        models_before = set(mx.get_models())

        def load():
            mm = mx.read_model(dest, name="Loaded")
            return mm

        if mode == "load_all_k":
            res, exc, n, _ = INJECTOR.run(work, load)
            if exc is not None:
                return out.fail("unfaulted-load-failed", "read_model raised %r" % (exc,))
            res.close()
            for k in range(1, n + 1):
                res, exc, _, fired = INJECTOR.run(work, load, arm_at=k)
                out.count("faulted_loads")
                if exc is None:
                    # a load that reports success has loaded everything (no half-loaded model stays registered)
                    try:
                        r = diff(expected[completed[-1]], model_desc(res))
                    except Exception as exc2:
                        r = "the loaded model cannot be described: %r" % (exc2,)
                    res.close()
                    if r:
                        return out.fail("half-loaded-model", "fault at event %d/%d %r of a load: read_model reported success "
                                        "but the model differs from what was saved: %s" % (k, n, fired, r), None, k=k)
                else:
                    if k > 2:
                        nt = True
                bad = session_clean(models_before)
                if bad:
                    return out.fail("load-residue", "fault at event %d/%d %r of a load (%s): %s" % (
                        k, n, fired, "raised %r" % (exc,) if exc is not None else "completed", "; ".join(bad)), None, k=k)
        elif mode == "pickle_load":
            # (an ordinary exception, or one that does not derive from Exception - an interruption)
            Touchy.fail_setstate = "base" if case["fractions"][0] % 2 else True
            res, exc, _, _ = INJECTOR.run(work, load)
            Touchy.fail_setstate = False
            out.count("faulted_loads")
            if exc is None:
                res.close()
                return out.fail("unpickling-fault-ignored", "a value that cannot be unpickled was loaded without error")
            nt = True
            bad = session_clean(models_before)
            if bad:
                return out.fail("load-residue", "unpickling fault: %s" % "; ".join(bad))
        else:   # corruption sweep (directory format only: every file in turn)
            if is_zip:
                out.discard = True
                return out
            files = []
            for dp, dn, fn in os.walk(dest):
                for f_ in fn:
                    files.append(os.path.join(dp, f_))
            snap = snapshot()
            for fp in sorted(files):
                for how in ("delete", "truncate", "garbage"):
                    restore(snap)
                    if how == "delete":
                        os.remove(fp)
                    elif how == "truncate":
                        with open(fp, "r+b") as fh:
                            fh.truncate(max(0, os.path.getsize(fp) // 2))
                    else:
                        with open(fp, "wb") as fh:
                            fh.write(b"\x00\xff(((garbage")
                    res, exc, _, _ = INJECTOR.run(work, load)
                    out.count("corrupted_loads")
                    if exc is None:
                        res.close()
                    else:
                        nt = True
                    bad = session_clean(models_before)
                    if bad:
                        return out.fail("load-residue", "loading with %s %sd (%s): %s" % (
                            os.path.relpath(fp, dest), how, "raised %s" % type(exc).__name__ if exc else "completed",
                            "; ".join(bad)))
            restore(snap)
    # the session is still usable: an un-faulted load round-trips the newest version
    try:
        m2 = mx.read_model(dest, name="Final")
    except Exception as exc:
        return out.fail("later-load-failed", "read_model after the faults raised %r" % (exc,))
    try:
        r = diff(expected[completed[-1]], model_desc(m2))
        if r:
            return out.fail("later-load-differs", "the model read at the end differs from the last save: %s" % r)
    finally:
        m2.close()
    out.nontrivial = nt
    out.label("mode:" + mode)
    out.label("zip" if is_zip else "dir")
    return out
