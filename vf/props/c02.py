"""C02 - no stale value survives any edit.

Generator: a model from the full grammar (inheritance, ItemSpaces, uncached
cells, object references, attribute paths) followed by a history mixing
evaluations with every edit kind the statement lists.
Oracle (T, the statement itself): after every edit that follows at least one
evaluation, a *cold twin* model is built by replaying only the edits; live model
and twin must (a) have accepted/rejected every edit alike and (b) answer a
battery of queries (every cells of every static space on several argument
tuples, and cells inside a few ItemSpaces) identically.
"""

from hypothesis import strategies as st

import modelx as mx

from .. import gen, ref as R
from ..drive import Real, apply_ref, reset_session, tup, plain_real, EDIT_OPS, VALUE_EDIT_OPS
from ..runner import Outcome

ID = "C02"
LEVEL = "exploration"
DESIGN_REF = "DESIGN.md section 6, C02"
RULE = ("history = generated model (build operations) + 6-22 steps drawn from evaluations and all edit kinds "
        "(cell values; references created/changed/shadowed/deleted in spaces and in the model; formulas; cells and "
        "spaces created/deleted/renamed; bases added/removed; parameter formulas; cached flag); non-trivial = some edit "
        "changed the correct answer (per the cold twin) of an element that held a value when the edit was made, i.e. "
        "invalidation was actually required; distinct = case hash")
ASSUMPTIONS = [
    "the cold twin is modelx itself without any evaluation before the queries: only cache-induced differences are detected",
    "the query battery samples arguments 0..1 per parameter and ItemSpace arguments 0..1",
    "object identities are compared by path relative to the model",
]

FEAT = gen.Feat(inherit=True, items=True, uncached=True, objrefs=True, shadow=False, max_top=3, max_child=2,
                max_cells=3, max_rank=4, depth=2, tick=False, partial=True, item_reads_refs=True)

CACHE_OPS = {"clear", "clear_all_space_values", "del_item", "clear_items"}


def plan(tier):
    if tier == "quick":
        return {"shards": 8, "examples": 300, "wall": 110}
    return {"shards": 16, "examples": 3000, "wall": 3000}


@st.composite
def histories(draw):
    gen.ITEM_REF_READS[0] = True
    try:
        ops, G = gen.gen_model_ops(draw, FEAT)
    finally:
        gen.ITEM_REF_READS[0] = False
    n = draw(st.integers(6, 22))
    for _ in range(n):
        k = draw(st.integers(0, 9))
        if k <= 3:
            sids = gen.all_ctx_ids(G) + (gen.item_sids(G) if draw(st.booleans()) else [])
            q = gen.gen_query(draw, G, sids)
            if q is not None:
                q[1] = gen._jsid(tup(q[1]))
                ops.append(q)
            continue
        if k == 4:
            q = gen.gen_query(draw, G)
            if q is not None:
                ops.append(["clear", q[1], q[2]])
            continue
        if k == 6 and draw(st.integers(0, 5)) == 0:
            for op in nested_uncached_scenario(draw, G):
                if op[0] == "eval" or gen.apply_edit_to_picture(G, op):
                    ops.append(op)
            continue
        if k == 6 and draw(st.integers(0, 11)) == 0:
            for op in handled_failure_scenario(draw, G):
                if op[0] == "eval" or gen.apply_edit_to_picture(G, op):
                    ops.append(op)
            continue
        if k == 7 and draw(st.integers(0, 3)) == 0:
            for op in instance_reference_scenario(draw, G):
                if op[0] == "eval" or gen.apply_edit_to_picture(G, op):
                    ops.append(op)
            continue
        if k == 5 and draw(st.booleans()):
            for op in aimed_scenario(draw, G):
                if op[0] == "eval" or gen.apply_edit_to_picture(G, op):
                    ops.append(op)
            continue
        op = None
        if draw(st.integers(0, 2)) == 0:
            op = aimed_edit(draw, G)
        if op is None:
            op = gen.gen_edit(draw, G, FEAT)
        if op is None:
            continue
        if gen.apply_edit_to_picture(G, op):
            ops.append(op)
            if op[0] == "rename_cells" and draw(st.booleans()):
                # the old name is taken again by a new definition
                sp = G.space(tuple(op[1]))
                if G.find_cells(sp, op[2]) is None:
                    op2 = ["new_cells", op[1], gen.gen_cells_def(draw, G, sp, op[2], FEAT)]
                    if gen.apply_edit_to_picture(G, op2):
                        ops.append(op2)
            if op[0] == "rename_space" and draw(st.booleans()):
                op2 = ["new_space", op[1][:-1], op[1][-1], None, None]
                if gen.apply_edit_to_picture(G, op2):
                    ops.append(op2)
    return {"ops": ops}


def hot_members(G):
    """(space path, kind, name) of cells / references some formula reaches through an attribute path"""
    from ..expr import walk
    hot = set()
    for s in G.all_spaces():
        for cdef in s.cells.values():
            for n in walk(cdef.expr):
                if n[0] == "attr":
                    for t in G.all_spaces():
                        if n[2] in t.cells:
                            hot.add((t.path, "cells", n[2]))
                        if n[2] in t.refs:
                            hot.add((t.path, "ref", n[2]))
    return sorted(hot)


def aimed_scenario(draw, G):
    """assigned values on a cells that other cells reach through an attribute path, evaluation of those readers,
    then one edit of that cells (the shape in which an input value, not a computed one, is the stale source)"""
    import itertools
    from ..expr import walk
    hot = [h for h in hot_members(G) if h[1] == "cells" and G.space(h[0]).cells[h[2]].cached]
    if not hot:
        return []
    path, _, name = draw(st.sampled_from(hot))
    sp = G.space(path)
    cdef = sp.cells[name]
    p = list(path)
    out = []
    for args in list(itertools.product(range(3), repeat=len(cdef.params)))[:draw(st.integers(1, 4))]:
        out.append(["set_value", p, name, list(args), draw(st.integers(20, 99))])
    for s in G.all_spaces():
        for rn, rdef in s.cells.items():
            if any(n[0] == "attr" and n[2] == name for n in walk(rdef.expr)):
                out.append(["eval", gen._jsid(tuple(s.path)), rn, [draw(st.integers(0, 1)) for _ in rdef.params], None, "()"])
    k = draw(st.integers(0, 5))
    new = draw(st.sampled_from(["c%d" % i for i in range(FEAT.max_rank + 1)]))
    if k == 5:
        # the same key is assigned an equal value of another type (45 -> 45.0): a different answer downstream
        last = out[0]
        out.append(["set_value", p, name, last[3], float(last[4])])
    elif k <= 1 and new != name and G.find_cells(sp, new) is None:
        out.append(["rename_cells", p, name, new])
    elif k == 2:
        out.append(["del_cells", p, name])
    elif k == 3:
        out.append(["set_cells_formula", p, name, gen.gen_cells_def(draw, G, sp, name, FEAT, params=cdef.params)])
    else:
        out.append(["set_cached", p, name, False])
    return out


def instance_reference_scenario(draw, G):
    """an instance whose parameter formula read a reference exists already; a cells elsewhere reads the reference
    that the formula returned off that instance; then the reference the formula read changes"""
    if "Qi" in G.spaces or "Qd" in G.spaces:
        return []
    mk = lambda name, params, expr: {"name": name, "params": params, "expr": expr, "cached": True, "allow_none": None,
                                     "form": draw(st.sampled_from(["lambda", "def"])), "tick": False}
    a = draw(st.integers(0, 2))
    inst = ["call", ["attr", ["name", "_model"], "Qi"], [["lit", a]], draw(st.sampled_from(["()", "[]"]))]
    out = [["new_space", [], "Qi", None, None], ["new_space", [], "Qd", None, None],
           ["set_ref", ["Qi"], "rq", ["v", draw(st.integers(1, 9))], None],
           ["new_cells", ["Qi"], mk("ci", [], ["name", "k0"])],
           ["set_formula", ["Qi"], {"params": [["p", None]], "form": "lambda",
                                    "ret": {"base": None, "refs": {"k0": ["bin", "+", ["var", "p"], ["name", "rq"]]}}}],
           ["new_cells", ["Qd"], mk("g", [], ["bin", "+", ["attr", inst, "k0"], ["lit", 100]])]]
    if draw(st.integers(0, 3)) != 0:
        out.append(["eval", ["Qi", [a]], "ci", [], None, "()"])       # the instance exists before its reader runs
    out.append(["eval", ["Qd"], "g", [], None, "()"])
    out.append(["set_ref", ["Qi"], "rq", ["v", draw(st.integers(20, 29))], None])
    out.append(["eval", ["Qd"], "g", [], None, "()"])
    return out


def nested_uncached_scenario(draw, G):
    """cached -> uncached -> uncached -> cached: the leaf is edited after the chain was evaluated"""
    spaces = [s for s in G.all_spaces() if all(G.find_cells(s, n) is None and n not in s.children
                                               for n in ("nu0", "nu1", "nu2", "nu3"))]
    if not spaces:
        return []
    s = draw(st.sampled_from(spaces))
    p = list(s.path)

    def mk(name, expr, cached):
        return {"name": name, "params": [["x", None]], "expr": expr, "cached": cached, "allow_none": None,
                "form": draw(st.sampled_from(["lambda", "def"])), "tick": False}
    call = lambda n: ["call", ["name", n], [["var", "x"]], "()"]
    depth = draw(st.integers(2, 3))
    out = [["new_cells", p, mk("nu0", ["bin", "+", ["var", "x"], ["lit", 1]], True)],
           ["new_cells", p, mk("nu1", ["bin", "+", call("nu0"), ["lit", 10]], False)],
           ["new_cells", p, mk("nu2", ["bin", "+", call("nu1"), ["lit", 100]], depth < 3 and draw(st.booleans()))],
           ["new_cells", p, mk("nu3", ["bin", "+", call("nu2"), ["lit", 1000]], True)]]
    for a in range(draw(st.integers(1, 2))):
        out.append(["eval", p, "nu3", [a], None, "()"])
    k = draw(st.integers(0, 2))
    if k == 0:
        out.append(["set_value", p, "nu0", [0], draw(st.integers(40, 60))])
    elif k == 1:
        out.append(["set_cells_formula", p, "nu0", mk("nu0", ["bin", "+", ["var", "x"], ["lit", draw(st.integers(2, 9))]], True)])
    else:
        out.append(["set_cells_formula", p, "nu1", mk("nu1", ["bin", "+", call("nu0"), ["lit", draw(st.integers(20, 90))]], False)])
    return out


def handled_failure_scenario(draw, G):
    """a cells whose formula catches the failure of a callee and answers with a fallback; after it was
    evaluated the callee is repaired (new formula / assigned value): the fallback must not survive"""
    spaces = [s for s in G.all_spaces() if G.find_cells(s, "hb0") is None and G.find_cells(s, "hs0") is None
              and "hb0" not in s.children and "hs0" not in s.children]
    if not spaces:
        return []
    s = draw(st.sampled_from(spaces))
    p = list(s.path)
    hb = {"name": "hb0", "params": [["x", None]], "expr": ["bin", "+", ["mod", ["lit", 7], 0], ["var", "x"]],
          "cached": draw(st.integers(0, 3)) != 0, "allow_none": None, "form": draw(st.sampled_from(["lambda", "def"])),
          "tick": False}
    hs = {"name": "hs0", "params": [["x", None]],
          "expr": ["bin", "+", ["try", ["call", ["name", "hb0"], [["var", "x"]], "()"], ["lit", -1]], ["lit", 0]],
          "cached": True, "allow_none": None, "form": "lambda", "tick": False}
    out = [["new_cells", p, hb], ["new_cells", p, hs]]
    for a in range(draw(st.integers(1, 2))):
        out.append(["eval", p, "hs0", [a], None, "()"])
    if hb["cached"] and draw(st.booleans()):
        out.append(["set_value", p, "hb0", [0], draw(st.integers(40, 60))])
    else:
        good = dict(hb, expr=["bin", "+", ["var", "x"], ["lit", draw(st.integers(100, 120))]])
        out.append(["set_cells_formula", p, "hb0", good])
    return out


def aimed_edit(draw, G):
    hot = hot_members(G)
    if not hot:
        return None
    path, kind, name = draw(st.sampled_from(hot))
    sp = G.space(path)
    p = list(path)
    if kind == "ref":
        return draw(st.sampled_from([["set_ref", p, name, ["v", draw(st.integers(10, 99))], None],
                                     ["set_ref", p, name, ["v", draw(st.integers(10, 99))], None],
                                     ["del_ref", p, name]]))
    cdef = sp.cells[name]
    k = draw(st.integers(0, 5))
    if k <= 1 and cdef.cached:
        return ["set_value", p, name, [draw(st.integers(0, 2)) for _ in cdef.params], draw(st.integers(20, 99))]
    if k == 2:
        return ["set_cells_formula", p, name, gen.gen_cells_def(draw, G, sp, name, FEAT, params=cdef.params)]
    if k == 3:
        new = draw(st.sampled_from(["c%d" % i for i in range(FEAT.max_rank + 1)]))
        if new != name and G.find_cells(sp, new) is None:
            return ["rename_cells", p, name, new]
        return None
    if k == 4:
        return ["del_cells", p, name]
    return ["set_cached", p, name, not cdef.cached]


def strategy(tier):
    return histories()


# ----------------------------------------------------------------------------

def battery(model):
    """[(sid, cellsname, args)] read off the live model's public structure"""
    qs = []

    def cells_of(sp, sid):
        for n, c in sorted(sp.cells.items()):
            k = len(c.parameters)
            if k == 0:
                qs.append((sid, n, ()))
            elif k == 1:
                qs.append((sid, n, (0,)))
                qs.append((sid, n, (1,)))
            else:
                qs.append((sid, n, (0,) * k))
                qs.append((sid, n, tuple(range(1, k + 1))))

    def rec(sp, sid):
        cells_of(sp, sid)
        if sp.parameters:
            k = len(sp.parameters)
            for a in (0, 1):
                qs.append((sid + ((a,) * k,), None, None))
        for n, ch in sorted(sp.spaces.items()):
            rec(ch, sid + (n,))
    for n, s in sorted(model.spaces.items()):
        rec(s, (n,))
    return qs


def ask(real, sid, name, args):
    """outcome of one query; for ItemSpace probes (name None) every cells inside is asked"""
    if name is not None:
        res = real.apply(["eval", list(sid), name, list(args), None, "()"])
        return [((sid, name, args), ("ok", plain_real(res[1])) if res[0] == "ok" else res)]
    out = []
    try:
        sp = real.ctx(sid)
    except BaseException as exc:
        return [((sid, None, None), ("err", type(exc).__name__ if not isinstance(exc, mx.core.errors.FormulaError)
                                     else type(mx.get_error()).__name__))]
    for n, c in sorted(sp.cells.items()):
        k = len(c.parameters)
        args = (0,) * k
        res = real.apply(["eval", list(sid), n, list(args), None, "()"])
        out.append(((sid, n, args), ("ok", plain_real(res[1])) if res[0] == "ok" else res))
    return out


def run_battery(real):
    answers = []
    for sid, name, args in battery(real.m):
        answers.extend(ask(real, sid, name, args))
    return answers


def _clear_try_cells(live):
    """(signature evaluation only) drop the values of every cells whose formula handles failures itself"""
    for (sid, name) in list(live.held()):
        try:
            c = live.ctx(sid).cells[name]
            if "_try(" in c.formula.source:
                c.clear()
        except Exception:
            pass


def run_case(case, assist=False):
    out = Outcome()
    reset_session()
    live = Real("L", hooks=True)
    edits = []              # (op, live outcome)
    evaluated = False
    required = set()
    for i, op in enumerate(case["ops"]):
        k = op[0]
        if k not in EDIT_OPS and k not in VALUE_EDIT_OPS:
            if k == "eval":
                live.apply(op)
                evaluated = True
            else:
                live.apply(op)          # cache operation: live model only
            continue
        if assist:
            _clear_try_cells(live)
        held_before = live.held() if evaluated else {}
        res = live.apply(op)
        edits.append((op, res[0], res[1] if res[0] != "ok" else None))
        out.count("edits")
        if res[0] != "ok":
            out.count("rejected_edits")
        if not evaluated:
            continue
        # cold twin: only the edits
        twin = Real("T", hooks=True)
        try:
            for (e, st0, err0) in edits:
                r = twin.apply(e)
                if (r[0] == "ok") != (st0 == "ok"):
                    return out.fail("acceptance", "edit %r: live model %s (%s), cold twin %s (%s)" % (
                        e, st0, err0, r[0], r[1] if r[0] != "ok" else None), i, edit=op[0])
            want = run_battery(twin)
        finally:
            try:
                twin.m.close()
            except Exception:
                pass
        got = run_battery(live)
        out.count("twin_comparisons")
        if [q for q, _ in got] != [q for q, _ in want]:
            return out.fail("structure", "after %r the live model and the twin expose different cells: %r vs %r" % (
                op, [q for q, _ in got][:8], [q for q, _ in want][:8]), i, edit=op[0])
        for (q, g), (_, w) in zip(got, want):
            if g != w or repr(g) != repr(w):        # (1, 1.0 and True are different answers)
                return out.fail("stale-value", "after %r: %s.%s%r -> live %r, model with only the edits %r" % (
                    op, ".".join(map(str, q[0])), q[1], q[2], g, w), i, edit=op[0], query=[list(map(str, q[0])), q[1]])
        # did this edit require invalidation?
        for (q, w) in want:
            sid, name, args = q
            d = held_before.get((sid, name))
            if d is not None and args in d and w != ("ok", plain_real(d[args])):
                required.add(op[0])
    out.nontrivial = bool(required)
    for r in required:
        out.label("invalidation_required:" + r)
    return out


# ----------------------------------------------------------------------------
# known-finding signatures

def sig_handled_failure_dependency(case, failure):
    """KF-C02-11: the stale value is explained by 'a formula caught the failure of a callee; no dependency on the
    failed element was recorded': the case has a formula that handles failures, and the staleness disappears when
    the values of exactly those cells (and, through the graph, what was computed from them) are dropped before
    every edit.  Any other cause of staleness still fails under that assistance and is reported."""
    from ..expr import walk
    if failure.get("oracle") != "stale-value":
        return False
    has_try = False
    for op in case["ops"]:
        d = op[2] if op[0] == "new_cells" else op[3] if op[0] == "set_cells_formula" else None
        if isinstance(d, dict) and any(n[0] == "try" for n in walk(d["expr"])):
            has_try = True
    if not has_try:
        return False
    return run_case(case, assist=True).failure is None


SIGNATURES = {"handled_failure_dependency": sig_handled_failure_dependency}
