"""C15 - an exported package computes the same values as the model.

Generator: models restricted to the documented export subset (no cell inputs,
parameter formulas return None, no ExcelRange / ModuleData, cells always called
with (), relative references only outside ItemSpaces) with the syntax the
statement lists: lambdas, comprehensions, nested lambdas, names shadowing
built-ins (cells named max / min), literal, pickled and object-valued references,
inheritance, parameter formulas with defaults, nested ItemSpaces, cached and
uncached cells.
Oracle (D): the model is exported to a scratch directory; a SUBPROCESS in which
importing modelx is blocked imports the package and evaluates a list of queries
(every cells of every static space on several arguments, cells inside ItemSpaces
incl. nested ones); every query the model answers with a value must give the same
value in the package; the same holds for the variant of the model with every
cached flag inverted.
"""

import json
import os
import shutil
import subprocess
import sys
import tempfile

from hypothesis import strategies as st

import modelx as mx

from .. import gen, ref as R
from ..drive import Real, reset_session, tup, EDIT_OPS
from ..runner import Outcome, VERIF

ID = "C15"
LEVEL = "exploration"
DESIGN_REF = "DESIGN.md section 6, C15"
RULE = ("generated export-subset model x query list; the model and its flag-inverted variant are exported and run in a "
        "modelx-free subprocess; non-trivial = the model has >=2 of {ItemSpace, inheritance, shadowed built-in, nested "
        "scope (lambda / comprehension)}; distinct = case hash")
ASSUMPTIONS = [
    "only queries the model answers with a value are compared (an exception is not a value)",
    "the documented limitations of export_model delimit the generated subset",
]

FEAT = gen.Feat(inherit=True, items=True, item_refs=False, uncached=True, objrefs=True, shadow=True, export_safe=True,
                max_top=2, max_child=2, max_cells=3, max_rank=4, depth=2, tick=False)


def plan(tier):
    if tier == "quick":
        return {"shards": 8, "examples": 60, "wall": 110}
    return {"shards": 16, "examples": 500, "wall": 2400}


@st.composite
def cases(draw):
    gen.EXPORT_SAFE[0] = True
    try:
        ops, G = gen.gen_model_ops(draw, FEAT)
    finally:
        gen.EXPORT_SAFE[0] = False
    # parameters named like the local variables a generated wrapper might use
    if draw(st.integers(0, 2)) == 0:
        s = draw(st.sampled_from(G.all_spaces()))
        pn = draw(st.sampled_from(["val", "key", "args", "value", "result"]))
        if G.find_cells(s, "c6") is None and "c6" not in s.children and G.find_ref(s, "c6") is None:
            cv = {"name": "c6", "params": [[pn, None]], "expr": ["bin", "+", ["bin", "*", ["var", pn], ["lit", 2]], ["lit", 1]],
                  "cached": draw(st.booleans()), "allow_none": None, "form": draw(st.sampled_from(["lambda", "def"])),
                  "tick": False}
            op = ["new_cells", list(s.path), cv]
            ops.append(op)
            gen.apply_ref(G, op)
    # a child space whose name shadows a built-in, used through that name in a formula
    if draw(st.integers(0, 2)) == 0:
        s = G.all_spaces()[0]
        nm = draw(st.sampled_from(["min", "abs", "len"]))
        if nm not in s.children and G.find_cells(s, nm) is None and G.find_cells(s, "c5") is None \
                and G.find_ref(s, nm) is None:
            leaf = {"name": "c0", "params": [["x", None]], "expr": ["bin", "+", ["var", "x"], ["lit", 40]],
                    "cached": True, "allow_none": None, "form": "lambda", "tick": False}
            user = {"name": "c5", "params": [["x", None]],
                    "expr": ["bin", "+", ["call", ["attr", ["name", nm], "c0"], [["var", "x"]], "()"], ["lit", 1]],
                    "cached": draw(st.booleans()), "allow_none": None, "form": draw(st.sampled_from(["lambda", "def"])),
                    "tick": False}
            for op in (["new_space", list(s.path), nm, None, None], ["new_cells", list(s.path) + [nm], leaf],
                       ["new_cells", list(s.path), user]):
                ops.append(op)
                gen.apply_ref(G, op)
    # a reference (model-level, own, or inherited) whose name shadows a built-in, read by a formula
    if draw(st.integers(0, 2)) == 0:
        spaces = G.all_spaces()
        s = draw(st.sampled_from(spaces))
        nm = draw(st.sampled_from(["pow", "len", "round", "id", "divmod"]))
        where = draw(st.sampled_from(["model", "own", "base"]))
        holder = []
        if where == "own":
            holder = list(s.path)
        elif where == "base":
            bases = [b for b in s.bases]
            holder = list(bases[0]) if bases else list(s.path)
        if G.find_cells(s, "c6") is None and G.find_cells(s, nm) is None and nm not in s.children \
                and all(nm not in t.children and G.find_cells(t, nm) is None for t in spaces):
            user = {"name": "c6", "params": [["x", None]],
                    "expr": ["bin", "+", ["var", "x"], ["name", nm]],
                    "cached": draw(st.booleans()), "allow_none": None, "form": draw(st.sampled_from(["lambda", "def"])),
                    "tick": False}
            for op in (["set_ref", holder, nm, ["v", draw(st.integers(100, 199))], None],
                       ["new_cells", list(s.path), user]):
                ops.append(op)
                gen.apply_ref(G, op)
    # a keyword argument whose name is also a reference; a nested scope that does not mention a global name,
    # followed by a list comprehension that does (comprehensions are inlined from Python 3.12 on)
    shape = draw(st.integers(0, 5))
    if shape <= 1 and G.all_spaces():
        s = draw(st.sampled_from(G.all_spaces()))
        if all(G.find_cells(s, n) is None and n not in s.children for n in ("c7", "c8", "kw0")) and "kw0" not in G.refs:
            callee = {"name": "c7", "params": [["x", None], ["kw0", 1]],
                      "expr": ["bin", "+", ["bin", "*", ["var", "x"], ["lit", 10]], ["var", "kw0"]],
                      "cached": draw(st.booleans()), "allow_none": None, "form": "def", "tick": False}
            if shape == 0:
                body = ["kwcall", ["name", "c7"], [["x", ["var", "x"]], ["kw0", ["name", "kw0"]]]]
            else:
                body = ["bin", "+", ["lam", "z", ["bin", "+", ["var", "z"], ["lit", 1]], ["lit", 2]],
                        ["lst", "i", 2, ["bin", "+", ["call", ["name", "c7"], [["var", "i"]], "()"], ["name", "kw0"]]]]
            user = {"name": "c8", "params": [["x", None]], "expr": body, "cached": draw(st.booleans()),
                    "allow_none": None, "form": draw(st.sampled_from(["lambda", "def"])), "tick": False}
            for op in (["set_ref", [], "kw0", ["v", draw(st.integers(3, 9))], None],
                       ["new_cells", list(s.path), callee], ["new_cells", list(s.path), user]):
                ops.append(op)
                gen.apply_ref(G, op)
    # a local name (lambda parameter / comprehension variable) that shadows a cells and is subscripted
    if draw(st.integers(0, 3)) == 0:
        cands = [(s, n) for s in G.all_spaces() for n in G.cells_names(s) if G.find_cells(s, "c9") is None
                 and "c9" not in s.children]
        if cands:
            s, cn = draw(st.sampled_from(cands))
            src = draw(st.sampled_from(["((lambda %(c)s: %(c)s[1] + x)([5, 6, 7]))",
                                        "sum([%(c)s[0] for %(c)s in [[x, 1], [2, 3]]])",
                                        "((lambda %(c)s: %(c)s['k'])({'k': x + 4}))"])) % {"c": cn}
            user = {"name": "c9", "params": [["x", None]], "expr": ["raw", src], "cached": draw(st.booleans()),
                    "allow_none": None, "form": draw(st.sampled_from(["lambda", "def"])), "tick": False}
            op = ["new_cells", list(s.path), user]
            ops.append(op)
            gen.apply_ref(G, op)
    # pickled (non-literal) references
    for j, s in enumerate(G.all_spaces()[:2]):
        if draw(st.booleans()):
            ops.append(["set_ref", list(s.path), "v%d" % j, ["py", draw(st.sampled_from(["[1, 2, 3]", "{'a': 1}", "(4, 5)", "numpy.float64(2.5)", "numpy.int64(7)",
                                                           "http.HTTPStatus.OK", "fractions.Fraction(1, 3)",
                                                           # floats without a literal spelling
                                                           "float('inf')", "-float('inf')", "float('nan')", "1e22"]))], None])
    queries = []
    for s in G.all_spaces():
        for n in G.cells_names(s):
            cdef = G.find_cells(s, n)[1]
            k = len(cdef.params)
            queries.append([list(s.path), n, [0] * k])
            if k:
                queries.append([list(s.path), n, [draw(st.integers(0, 2)) for _ in range(k)]])
        if s.formula is not None:
            np_ = len(s.formula["params"])
            for a in (0, 1):
                item = {"a": [a] * np_}
                if np_ == 1 and draw(st.booleans()):
                    item["sub"] = True
                for n in G.cells_names(s):
                    cdef = G.find_cells(s, n)[1]
                    queries.append([list(s.path) + [item], n, [draw(st.integers(0, 2)) for _ in cdef.params]])
                for cn, ch in s.children.items():
                    for n in G.cells_names(ch):
                        cdef = G.find_cells(ch, n)[1]
                        queries.append([list(s.path) + [item, cn], n, [0] * len(cdef.params)])
                    if ch.formula is not None:
                        item2 = {"a": [1] * len(ch.formula["params"])}
                        for n in G.cells_names(ch):
                            cdef = G.find_cells(ch, n)[1]
                            queries.append([list(s.path) + [item, cn, item2], n, [0] * len(cdef.params)])
    # after the instances for both outer arguments exist: a NEW inner instance under the FIRST outer instance
    revisit = []
    for s in G.all_spaces():
        if s.formula is not None:
            np_ = len(s.formula["params"])
            for cn, ch in s.children.items():
                if ch.formula is not None:
                    for n in G.cells_names(ch)[:2]:
                        cdef = G.find_cells(ch, n)[1]
                        revisit.append([list(s.path) + [{"a": [0] * np_}, cn, {"a": [2] * len(ch.formula["params"])}], n,
                                        [0] * len(cdef.params)])
    return {"ops": ops, "queries": queries[:60 - min(len(revisit), 6)] + revisit[:6]}


def strategy(tier):
    return cases()


def features(case):
    f = set()
    src = json.dumps(case["ops"])
    if '"set_formula"' in src:
        f.add("itemspace")
    if '"add_bases"' in src:
        f.add("inheritance")
    if '"name": "max"' in src or '"name": "min"' in src or '"name": "c6"' in src or '"name": "c5"' in src \
            or '"name": "c8"' in src or '"name": "c9"' in src:
        f.add("shadow")
    if '"lam"' in src or '"sum"' in src or '"lst"' in src:
        f.add("nested-scope")
    return f


def model_answers(real, queries):
    out = []
    for path, name, args in queries:
        try:
            o = real.ctx(path)
            v = o.cells[name](*args)
            out.append(["ok", v if isinstance(v, (int, float, str, bool)) or v is None else repr(v)])
        except mx.core.errors.FormulaError:
            out.append(["err", type(mx.get_error()).__name__])
        except Exception as exc:
            out.append(["err", type(exc).__name__])
    return out


def export_and_run(real, queries, root, tag):
    pkg = "pkg_" + tag
    dest = os.path.join(root, pkg)
    try:
        real.m.export(dest)
    except Exception as exc:
        return None, "export raised %r" % (exc,)
    qf = os.path.join(root, "q_%s.json" % tag)
    with open(qf, "w") as f:
        json.dump(queries, f)
    env = dict(os.environ)
    env.pop("PYTHONPATH", None)
    p = subprocess.run([sys.executable, os.path.join(VERIF, "vf", "export_runner.py"), root, pkg, qf],
                       capture_output=True, text=True, env=env, timeout=300)
    if p.returncode != 0:
        return None, "runner failed: %s" % p.stderr[-500:]
    try:
        res = json.loads(p.stdout.strip().splitlines()[-1])
    except Exception:
        return None, "runner output unreadable: %r" % p.stdout[-300:]
    if res["import_error"]:
        return None, "the exported package cannot be imported without modelx: %s" % res["import_error"]
    return res["results"], None


def run_variant(case, invert, root, out):
    reset_session()
    real = Real("M", hooks=False)
    for op in case["ops"]:
        if op[0] in EDIT_OPS:
            if invert and op[0] == "new_cells":
                op = [op[0], op[1], dict(op[2], cached=not op[2].get("cached", True))]
            real.apply(op)
    want = model_answers(real, case["queries"])
    got, err = export_and_run(real, case["queries"], root, "inv" if invert else "orig")
    return want, got, err


def run_case(case):
    out = Outcome()
    root = tempfile.mkdtemp(prefix="vfc15_")
    try:
        base = None
        for invert in (False, True):
            want, got, err = run_variant(case, invert, root, out)
            if err:
                return out.fail("export-failed", "%s variant: %s" % ("flag-inverted" if invert else "original", err))
            for q, w, g in zip(case["queries"], want, got):
                if w[0] == "ok" and w != g:
                    return out.fail("export-value", "%s variant: %s.%s%r -> model %r, exported package %r" % (
                        "flag-inverted" if invert else "original", ".".join(map(str, q[0])), q[1], tuple(q[2]), w, g))
            if base is None:
                base = want
            else:
                for q, a, b in zip(case["queries"], base, want):
                    if a[0] == "ok" and b[0] == "ok" and a != b:
                        return out.fail("flag-changes-model-value", "%r: %r vs %r with inverted flags" % (q, a, b))
            out.count("queries_compared", sum(1 for w in want if w[0] == "ok"))
        f = features(case)
        out.nontrivial = len(f) >= 2
        for x in f:
            out.label(x)
        return out
    finally:
        shutil.rmtree(root, ignore_errors=True)


# ----------------------------------------------------------------------------
# known-finding signatures

def sig_export_scope_assertion(case, failure):
    """KF-C15-3: the exporter's scope/symbol-table alignment asserts; only when some formula has a conditional
    expression with a nested scope in its condition (the lambda) and in a branch"""
    asserts = failure["oracle"] == "export-failed" and "AssertionError" in failure["detail"]
    misbinds = failure["oracle"] == "export-value" and "'NameError'" in failure["detail"]
    if not (asserts or misbinds):
        return False

    def nested(e):
        from ..expr import walk
        return any(n[0] in ("lam", "sum", "lst") for n in walk(e))

    from ..expr import walk
    for op in case["ops"]:
        if op[0] in ("new_cells", "set_cells_formula"):
            c = op[2] if op[0] == "new_cells" else op[3]
            for n in walk(c["expr"]):
                if n[0] == "ifgt" and nested(n[1]) and (nested(n[3]) or nested(n[4])):
                    return True
    return False


SIGNATURES = {"export_scope_assertion": sig_export_scope_assertion}
