"""C11 - rejected edits change nothing; the inheritance relation stays well-formed.

Generator: histories mixing valid edits (every kind) and evaluations with a
catalogue of invalid requests, each rejection reason x each operation that can
trigger it: invalid / underscore / keyword / non-string names for new_space,
rename (cells, space, model) and set_ref; clashes cells <-> space <-> reference in
the same space and in sub spaces; cyclic add_bases (self, sub), bases without a
linearisation, base lists that would give one name two kinds in a sub; deleting
derived cells / references; malformed formula text (syntax error, two
statements, not a function, wrong type) for new_cells, the formula setter,
new_space(formula=) and the parameter-formula setter; unassignable values (None
without allow_none, wrong arity, unhashable key, assignment to an uncached
cells); remove_bases of a non-base; relative references out of scope.
Oracle (I): when an operation raises, the public description of the whole model
(definitions and inputs) and all held values are what they were, and the
library's self-checks pass; when it is accepted, the direct-base relation is
acyclic with a C3 linearisation for every space and every space / cells name is
a valid identifier not starting with an underscore.  A few must-accept requests
(fresh valid names) guard against 'reject everything'.
"""

import keyword

from hypothesis import strategies as st

import modelx as mx

from .. import gen, ref as R
from ..describe import model_desc, diff
from ..drive import Real, apply_ref, reset_session, tup, EDIT_OPS
from ..runner import Outcome

ID = "C11"
LEVEL = "exploration"
DESIGN_REF = "DESIGN.md section 6, C11"
RULE = ("history = generated model + 8-22 steps: valid edits, evaluations and invalid requests from the catalogue in the "
        "module docstring; non-trivial = an operation was rejected while the model held >=1 value and had >=1 sub space "
        "(so there was state to corrupt); distinct = case hash")
ASSUMPTIONS = [
    "which requests are rejected is decided by modelx (accept-follows-real); only the cleanliness of rejections and the "
    "well-formedness after acceptances are asserted",
    "invalid names given to new_cells are silently replaced by an automatic name (documented behaviour), not a rejection",
]
SIGNATURES = {}

FEAT = gen.Feat(inherit=True, items=True, uncached=True, objrefs=False, shadow=False, max_top=3, max_child=2,
                max_cells=3, max_rank=3, depth=1, tick=False)
BAD_NAMES = ["3S", "_hid", "for", "a b", "", "x-y", "dé f", "Abc\n", "x1\n", " lead", "trail "]
BAD_FORMULAS = ["def bad(x) return", "x = 1\ny = 2", "1 + 1", "def f(:\n    pass", "lambda x: (", "import os",
                {"obj": "two_lambdas"}, {"obj": "builtin"}, {"obj": "partial"}, {"obj": "no_source"}]


def plan(tier):
    if tier == "quick":
        return {"shards": 8, "examples": 150, "wall": 100}
    return {"shards": 16, "examples": 2500, "wall": 2400}


def gen_invalid(draw, G):
    spaces = G.all_spaces()
    if not spaces:
        return None
    s = draw(st.sampled_from(spaces))
    p = list(s.path)
    k = draw(st.integers(0, 34))
    bad = draw(st.sampled_from(BAD_NAMES))
    if k == 0:
        return ["new_space_raw", draw(st.sampled_from([[], p])), bad, None, None]
    if k == 1:
        return ["new_space_raw", [], draw(st.sampled_from([5, 3.5])), None, None]
    if k == 2 and s.cells:
        return ["rename_cells", p, draw(st.sampled_from(sorted(s.cells))), bad]
    if k == 3:
        return ["rename_space", p, bad]
    if k == 4:
        return ["rename_model", bad]
    if k == 5:
        return ["set_ref_raw", draw(st.sampled_from([[], p])), bad, "1", None if draw(st.booleans()) else "auto"]
    if k == 6:
        # clash: a name used by another kind in this space or a sub space
        names = list(s.children) + G.cells_names(s)
        for t in G.subs(s):
            names += list(t.children) + G.cells_names(t)
        if names:
            return ["set_ref_raw", p, draw(st.sampled_from(names)), "1", "auto"]
    if k == 7:
        names = G.ref_names(s) + list(s.children)
        for t in G.subs(s):
            names += G.ref_names(t) + list(t.children)
        if names:
            n = draw(st.sampled_from(names))
            return ["new_cells_raw", p, n, "lambda: 1"]
    if k == 8:
        names = G.ref_names(s) + G.cells_names(s)
        if names:
            return ["new_space_raw", p, draw(st.sampled_from(names)), None, None]
    if k == 9:
        return ["add_bases", p, [p]]                    # self
    if k == 10:
        subs = G.subs(s)
        if subs:
            return ["add_bases", p, [list(draw(st.sampled_from(subs)).path)]]       # cycle
    if k == 11 and len(spaces) >= 3:
        # bases without a linearisation: [X, Y] where Y is a base of X ... or reversed order of an existing pair
        a, b = draw(st.sampled_from(spaces)), draw(st.sampled_from(spaces))
        if a is not b and a is not s and b is not s:
            return ["new_space_raw", [], "Zz", [list(a.path), list(b.path)], None]
    if k == 12:
        derived = [n for n in G.cells_names(s) if n not in s.cells] + [n for n in G.ref_names(s) if n not in s.refs]
        if derived:
            return ["del_member", p, draw(st.sampled_from(derived))]
    if k == 13:
        return ["new_cells_raw", p, "fresh_bad", draw(st.sampled_from(BAD_FORMULAS + [5, ["list"]]))]
    if k == 14:
        # (half of the time aimed at a cells that holds assigned values or is derived somewhere: state to lose)
        hot = sorted({(sid, n) for (sid, n), d in G.inputs.items() if d and all(isinstance(x, str) for x in sid)}
                     | {(t.path, n) for t in spaces for n in G.cells_names(t) if n not in t.cells})
        bad = draw(st.sampled_from(BAD_FORMULAS + [5, {"obj": "two_lambdas"}, {"obj": "two_lambdas"}]))
        if hot and draw(st.booleans()):
            sid, n = draw(st.sampled_from(hot))
            return ["set_cells_formula_raw", list(sid), n, bad]
        if s.cells:
            return ["set_cells_formula_raw", p, draw(st.sampled_from(sorted(s.cells))), bad]
    if k == 15:
        return ["set_formula_raw", p, draw(st.sampled_from(BAD_FORMULAS + [5, "lambda: 1 +"]))]
    if k == 16:
        return ["new_space_raw", p, "Zf", None, draw(st.sampled_from(BAD_FORMULAS))]
    if k == 17:
        cs = [n for n in G.cells_names(s)]
        if cs:
            n = draw(st.sampled_from(cs))
            cdef = G.find_cells(s, n)[1]
            np_ = len(cdef.params)
            kind = draw(st.integers(0, 3))
            if kind == 0:
                return ["set_value_raw", p, n, repr(tuple([0] * np_)), "None"]        # None without allow_none
            if kind == 1:
                return ["set_value_raw", p, n, repr(tuple([0] * (np_ + 2))), "5"]      # wrong arity
            if kind == 2 and np_:
                return ["set_value_raw", p, n, "([1, 2]," + "0," * (np_ - 1) + ")", "5"]   # unhashable key
            return ["set_value_raw", p, n, repr(tuple([0] * np_)), "7"]               # fine unless uncached
    if k == 18:
        others = [t for t in spaces if t is not s and t.path not in [tuple(b) for b in s.bases]]
        if others:
            return ["remove_bases", p, [list(draw(st.sampled_from(others)).path)]]
    if k == 19:
        # relative reference to something outside the space's tree while subs exist
        outside = [t for t in spaces if t.path[:len(s.path)] != s.path and s.path[:len(t.path)] != t.path]
        if outside:
            return ["set_ref", p, "rel0", ["o", list(draw(st.sampled_from(outside)).path)], "relative"]
    if k == 20:
        # a base whose member name would become a second kind in this space (child space / reference vs cells)
        names = list(s.children) + list(s.refs)
        others = [t for t in spaces if t is not s and t.path[:len(s.path)] != s.path and s.path[:len(t.path)] != t.path]
        if names and others:
            t = draw(st.sampled_from(others))
            n = draw(st.sampled_from(names))
            return ["_seq", [["new_cells_raw", list(t.path), n, "lambda: 1"], ["add_bases", p, [list(t.path)]]]]
    if k == 21:
        return ["del_member", p, "no_such_member"]
    if k == 24:
        # copying a space into itself or into one of its descendants
        inside = [t for t in spaces if t.path[:len(s.path)] == s.path]
        return ["copy_space", p, list(draw(st.sampled_from(inside)).path), "Cpy"]
    if k in (27, 28):
        # a space deriving reference rz from its second base; the first base is then given a relative reference of that
        # name to an unrelated space, which the sub cannot resolve: refused before anything changes
        t = "%d" % draw(st.integers(0, 99))
        return ["_seq", [["new_space_raw", [], "Xa" + t, None, None], ["new_space_raw", [], "Ya" + t, None, None],
                         ["new_space_raw", [], "Wa" + t, None, None], ["set_ref", ["Ya" + t], "rz", ["v", 3], None],
                         ["new_space_raw", [], "Sa" + t, [["Xa" + t], ["Ya" + t]], None],
                         ["set_ref", ["Xa" + t], "rz", ["o", ["Wa" + t]], "relative"]]]
    if k in (31, 32):
        # deleting a space that keeps the base orders of two sub spaces consistent: refused, nothing deleted
        t = "%d" % draw(st.integers(0, 99))
        A, B, P, Q, R, R2, M, K = (x + t for x in ("La", "Lb", "Lp", "Lq", "Lr", "Lx", "Lm", "Lk"))
        return ["_seq", [["new_space_raw", [], A, None, None], ["new_space_raw", [], B, None, None],
                         ["new_space_raw", [], P, [[A]], None], ["new_space_raw", [], Q, [[B]], None],
                         ["new_space_raw", [], R, [[B], [A]], None], ["new_space_raw", [], R2, [[B], [A]], None],
                         ["new_space_raw", [], M, [[P], [Q], [R2]], None], ["new_space_raw", [], K, [[M], [R]], None],
                         ["del_space", [R2]]]]
    if k in (33, 34):
        # a cells made from a function without retrievable source holds an assigned value; renaming it is
        # refused (the function cannot be given the new name) before anything changes
        t = "%d" % draw(st.integers(0, 99))
        return ["_seq", [["new_cells_raw", p, "f", {"obj": "no_source"}], ["set_value_raw", p, "f", "(1,)", "5"],
                         ["rename_cells", p, "f", "nsrc" + t]]]
    if k in (29, 30):
        # None is allowed at an enclosing level and explicitly not for this cells, which holds an assigned value:
        # assigning None is refused before the value is touched
        cs = [(n, c) for n, c in sorted(s.cells.items()) if c.cached]
        if cs:
            n, c = draw(st.sampled_from(cs))
            key = repr(tuple([0] * len(c.params)))
            return ["_seq", [["set_allow_none", draw(st.sampled_from([[], p[:1]])), None, True],
                             ["set_allow_none", p, n, False], ["set_value_raw", p, n, key, "7"],
                             ["set_value_raw", p, n, key, "None"]]]
    if 25 <= k <= 26:
        # as below, but the space that is given the unresolvable base already has sub spaces (a diamond when the
        # model has one): the rejection has to undo a derivation that ran through all of them
        sibs = [t for t in spaces if t.path[:-1] == s.path[:-1] and t is not s]
        others = [t for t in spaces if t.path[:len(s.path)] != s.path and t.path != s.path[:-1]
                  and s.path[:len(t.path)] != t.path and t not in G.subs(s) and s not in G.subs(t)]
        withsubs = [t for t in others if G.subs(t)]
        if sibs and others:
            tgt = draw(st.sampled_from(withsubs or others))
            seq = [["set_ref", p, "rel2", ["o", list(draw(st.sampled_from(sibs)).path)], "relative"]]
            if not G.subs(tgt):
                # make a diamond under the target: Dm1(tgt), Dm2(tgt), Dm3(Dm1, Dm2)
                seq += [["new_space_raw", [], "Dm1", [list(tgt.path)], None], ["new_space_raw", [], "Dm2", [list(tgt.path)], None],
                        ["new_space_raw", [], "Dm3", [["Dm1"], ["Dm2"]], None]]
            seq.append(["add_bases", list(tgt.path), [p]])
            return ["_seq", seq]
    if 22 <= k <= 23:
        # a base with a resolvable (auto, to its own child) and an unresolvable (relative, to a sibling) reference,
        # then a new space elsewhere deriving from it: the request is rejected after part of the derivation ran
        kids = [t for t in spaces if t.path[:-1] == s.path]
        sibs = [t for t in spaces if t.path[:-1] == s.path[:-1] and t is not s]
        others = [t for t in spaces if t.path[:len(s.path)] != s.path and t.path != s.path[:-1]
                  and s.path[:len(t.path)] != t.path]
        if sibs and others:
            seq = []
            if kids:
                seq.append(["set_ref", p, "ra0", ["o", list(draw(st.sampled_from(kids)).path)], "auto"])
            seq.append(["set_ref", p, "rel1", ["o", list(draw(st.sampled_from(sibs)).path)], "relative"])
            seq.append(["new_space_raw", list(draw(st.sampled_from(others)).path), "Zr", [p], None])
            return ["_seq", seq]
    return None


@st.composite
def histories(draw):
    ops, G = gen.gen_model_ops(draw, FEAT)
    fresh = 0
    for _ in range(draw(st.integers(8, 22))):
        k = draw(st.integers(0, 9))
        if k <= 1:
            q = gen.gen_query(draw, G, gen.all_ctx_ids(G) + gen.item_sids(G, 1))
            if q:
                q[1] = gen._jsid(tup(q[1]))
                ops.append(q)
        elif k <= 3:
            op = gen.gen_edit(draw, G, FEAT)
            if op is not None and gen.apply_edit_to_picture(G, op, allow_dangling=True):
                ops.append(op)
        elif k == 4 and G.all_spaces():
            s = draw(st.sampled_from(G.all_spaces()))
            fresh += 1
            ops.append(["must_accept", list(s.path), "fresh%d" % fresh])
        else:
            op = gen_invalid(draw, G)
            if op is None:
                continue
            if op[0] == "_seq":
                for o in op[1]:
                    ops.append(o)
            else:
                ops.append(op)
    return {"ops": ops}


def strategy(tier):
    return histories()


# ----------------------------------------------------------------------------

def valid_name(n):
    return isinstance(n, str) and n.isidentifier() and not keyword.iskeyword(n) and not n.startswith("_")


def wellformed(real):
    """acyclic direct-base relation with a C3 linearisation; valid names.  None or (oracle, detail)"""
    direct = {}
    for sp in real.all_static_spaces():
        path = sp._idtuple[1:]
        if not valid_name(sp.name):
            return ("invalid-space-name", "a space is named %r" % (sp.name,))
        for n in sp.cells:
            if not valid_name(n):
                return ("invalid-cells-name", "%s has a cells named %r" % (".".join(path), n))
        direct[path] = [b._idtuple[1:] for b in sp._direct_bases]
    for path in direct:
        try:
            mro = R.c3(path, direct)
        except ValueError:
            return ("cyclic-inheritance", "the direct-base relation is cyclic at %s: %r" % (".".join(path), direct[path]))
        except TypeError:
            return ("no-linearisation", "%s with direct bases %r has no C3 linearisation" % (".".join(path), direct[path]))
        got = [b._idtuple[1:] for b in real.space(path).bases]
        if got != mro[1:]:
            return ("bases-not-c3", "%s.bases %r, C3 of direct bases %r" % (".".join(path), got, mro[1:]))
    return None


def run_case(case):
    out = Outcome()
    reset_session()
    real = Real("M", hooks=False)
    nt = False
    for i, op in enumerate(case["ops"]):
        k = op[0]
        if k == "eval":
            real.apply(op)
            continue
        if k == "must_accept":
            res = real.apply(["new_cells_raw", op[1], op[2], "lambda x: x"])
            if res[0] != "ok":
                try:
                    real.space(op[1])
                except Exception:
                    continue
                return out.fail("valid-request-rejected", "new_cells(%r) with a fresh valid name in %s raised %s" % (
                    op[2], ".".join(op[1]), res[1]), i)
            continue
        try:
            before = model_desc(real.m, with_name=True)
        except Exception as exc:
            return out.fail("description-raised", "the model cannot be described before %r: %r" % (op, exc), i)
        held = real.held()
        nsubs = sum(1 for sp in real.all_static_spaces() if sp._direct_bases)
        res = real.apply(op)
        if res == ("err", "HarnessTimeout"):
            return out.fail("non-terminating", "%r did not return within 3 seconds (and is not refused)" % (op,), i)
        if res[0] == "ok":
            out.count("accepted")
            f = wellformed(real)
            if f:
                return out.fail(f[0], "after accepted %r: %s" % (op, f[1]), i)
        else:
            out.count("rejected")
            out.label("rejected:" + k)
            if held and nsubs:
                nt = True
            try:
                after = model_desc(real.m, with_name=True)
            except Exception as exc:
                return out.fail("rejected-edit-corrupts", "after rejected %r (%s) the model cannot be described: %r" % (
                    op, res[1], exc), i)
            r = diff(before, after)
            if r:
                return out.fail("rejected-edit-changed-model", "%r raised %s but changed the model: %s" % (op, res[1], r), i)
            # "all values stay correct": a rejected edit may drop computed values (inputs are definitions and
            # are part of the description) but must not change or invent any
            h2 = real.held()
            for kk, d2 in h2.items():
                d1 = held.get(kk, {})
                for key, v in d2.items():
                    if key not in d1 or d1[key] != v:
                        return out.fail("rejected-edit-changed-values", "%r raised %s but %r[%r] is now %r (was %r)" % (
                            op, res[1], kk, key, v, d1.get(key, "<absent>")), i)
        try:
            mx.core.mxsys._check_sanity()
        except AssertionError as a:
            return out.fail("self-check", "mxsys._check_sanity() fails after %r -> %r: %r" % (op, res, a), i)
        except Exception as exc:
            return out.fail("self-check-raised", "mxsys._check_sanity() raised after %r -> %r: %r" % (op, res, exc), i)
    out.nontrivial = nt
    return out
