"""C18 - an IOSpec lives exactly as long as a reference to its value.

Generator: histories over 1-2 models with 3 spaces each (one base / sub pair):
new_pandas (csv, excel with and without sheets) on fresh names, on existing
reference names, on names of cells and of child spaces, on a path already
claimed; binding the value to further names (other space, model level, sub
space), rebinding a name to another value AND to the same value, overriding a
derived reference and then deleting the base one, del, update_pandas(old, new),
add_bases / remove_bases, deleting spaces, model.close(), new_module.
Oracle (I), after every step and for every open model: the values of
model.iospecs are exactly the spec-carrying values bound to >=1 reference of the
model (found by walking all references of all spaces and of the model); the io
manager holds no spec outside that set; no two specs claim the same (model, path,
sheet); get_spec(value) returns the spec for live values; a rejected creation
leaves neither spec nor reference (public description unchanged);
mxsys._check_sanity() passes.  At the end (and at random points in the thorough
tier) the model is written and read back and every live spec's value is equal.
"""

import os
import shutil
import tempfile

from hypothesis import strategies as st

import modelx as mx
import pandas as pd

from ..describe import model_desc, diff
from ..drive import reset_session
from ..runner import Outcome

ID = "C18"
LEVEL = "exploration"
DESIGN_REF = "DESIGN.md section 6, C18"
RULE = ("history of 10-32 IOSpec life-cycle operations over 1-2 models; non-trivial = some spec-carrying value was at some "
        "point bound to >=2 references one of which was derived, and at least one rebinding or deletion followed; "
        "distinct = case hash")
ASSUMPTIONS = [
    "a value 'carries a spec' from a successful new_pandas/new_module until no reference of the model is bound to it",
    "values are compared by identity, as the library documents",
]
def _abs_to_rel_moves(case):
    """indices of set_path operations that move a file from an absolute to a relative path"""
    where = {}
    hits = []
    for j, op in enumerate(case["ops"]):
        if op[0] == "new_pandas":
            where.setdefault((op[1], op[5]), op[4])     # (a value has one spec: later creations for it are refused)
        elif op[0] == "set_path":
            old = where.get((op[1], op[2]))
            if isinstance(old, str) and old.startswith("ABS:") and not op[3].startswith("ABS:"):
                hits.append(j)
            where[(op[1], op[2])] = op[3]
    return hits


def _passes_without(case, own):
    """Counterfactual run for the two findings that share one root cause (files at absolute paths are registered
    without a model): drop the operations that move such a file to a relative path (KF-C18-7) and those that bind a
    value in a second model which has / gets a spec at an absolute path (KF-C18-8), repeatedly, and see whether the
    case then passes.  True only if operations of kind ``own`` were among the dropped ones."""
    cur = case
    dropped = {"abs_to_rel": 0, "abs_shared": 0}
    for _ in range(8):
        o = run_case(cur)
        hits = set()
        for kind in dropped:
            h = o.info.get(kind) or []
            dropped[kind] += len(h)
            hits |= set(h)
        if not hits:
            return dropped[own] > 0 and o.failure is None
        cur = dict(cur, ops=[op for j, op in enumerate(cur["ops"]) if j not in hits])
    return False


def sig_external_to_internal_move(case, failure):
    """KF-C18-7: the case moves the file of a spec from an absolute to a relative path and passes without those
    moves (counterfactual run)"""
    return _passes_without(case, "abs_to_rel")


def sig_abs_spec_shared(case, failure):
    """KF-C18-8: a value whose spec is at an absolute path is bound in a second model as well, and the case passes
    without those cross-model assignments (counterfactual run)"""
    return _passes_without(case, "abs_shared")


SIGNATURES = {"external_to_internal_move": sig_external_to_internal_move,
              "abs_spec_shared_across_models": sig_abs_spec_shared}

NAMES = ["d0", "d1", "d2", "x"]
PATHS = ["a.csv", "b.csv", "book.xlsx", "sub/c.csv", "ABS:a.csv"]    # ABS: = an absolute path outside the model
SHEETS = [None, "s1", "s2", "Sheet1"]
MOD_PATHS = ["mods/m0.py", "mods/m1.py", "a.csv"]
RANGE_PATHS = ["rng.xlsx", "rng.xlsx", "book.xlsx"]
RANGES = ["A1:B3", "B2:C4", "D1:E2"]          # the first two overlap
MOD_SRC = ["K = 1\ndef triple(x):\n    return 3 * x\n", "K = 2\ndef triple(x):\n    return 30 * x\n"]


def plan(tier):
    if tier == "quick":
        return {"shards": 8, "examples": 250, "wall": 100}
    return {"shards": 16, "examples": 1500, "wall": 2400}


@st.composite
def histories(draw):
    nmodels = draw(st.integers(1, 2))
    ops = []
    for _ in range(draw(st.integers(10, 32))):
        k = draw(st.integers(0, 22))
        mi = draw(st.integers(0, nmodels - 1))
        where = draw(st.sampled_from(["A", "A", "A", "B", "C", ""]))     # B derives from A; "" = model level
        name = draw(st.sampled_from(NAMES))
        vi = draw(st.sampled_from([0, 0, 1, 1, 2, 3, 10, 11, 20, 21, 22]))
        if k <= 3:
            path = draw(st.sampled_from(PATHS))
            sheet = draw(st.sampled_from(SHEETS)) if path.endswith("xlsx") else None
            nm = name
            if draw(st.integers(0, 5)) == 0:
                # a cells / a child space of A; a cells / a child space of its sub B
                nm = draw(st.sampled_from(["cel", "Kid", "bcel", "BKid"]))
            ops.append(["new_pandas", mi, where, nm, path, vi, sheet])
        elif k <= 6:
            ops.append(["assign", mi, where, name, vi])          # may be a spec-carrying value or a fresh one
        elif k == 7:
            ops.append(["assign_same", mi, where, name])
        elif k <= 9:
            ops.append(["del", mi, where, name])
        elif k == 10:
            # (a third of the updates name no new value / the same object: the value was edited in place)
            ops.append(["update", mi, vi, draw(st.sampled_from([4, 5, 6, 4, 5, 6, "none", "same", "same"]))])
        elif k == 11:
            ops.append(["add_bases", mi, draw(st.sampled_from(["B", "C"])), "A"])
        elif k == 12:
            ops.append(["remove_bases", mi, draw(st.sampled_from(["B", "C"])), "A"])
        elif k == 13:
            ops.append(["override_then_del_base", mi, name])
        elif k == 14:
            ops.append(["del_space", mi, draw(st.sampled_from(["B", "C"]))])
        elif k == 15:
            if draw(st.integers(0, 2)) == 0:
                ops.append(["close", mi])
            elif draw(st.booleans()):
                # a new space created with a reference to a value (that may carry a spec and be bound elsewhere)
                ops.append(["new_space_refs", mi, vi, name])
            else:
                ops.append(["copy_space", mi, draw(st.sampled_from(["A", "C"]))])
        elif k == 16 and nmodels == 2:
            # the very object that is value vi of the OTHER model is bound to a name in this one (a plain assignment)
            ops.append(["share_value", mi, where, name, draw(st.sampled_from([0, 1, 2, 3]))])
        elif k == 22:
            # the file of a spec is moved (to a free place, to a claimed one, from relative to absolute)
            ops.append(["set_path", mi, draw(st.sampled_from([0, 1, 2, 3])),
                        draw(st.sampled_from(["a.csv", "b.csv", "moved.csv", "ABS:a.csv", "ABS:b.csv"]))])
        elif k == 18:
            ops.append(["new_module", mi, where, name, draw(st.sampled_from(MOD_PATHS)), draw(st.integers(0, 1))])
        elif k == 19:
            ops.append(["new_range", mi, where, name, draw(st.sampled_from(RANGE_PATHS)), draw(st.integers(0, 2)),
                        draw(st.booleans())])
        elif k == 20:
            ops.append(["update_module", mi, draw(st.integers(0, 1)), draw(st.sampled_from([None, 0, 1]))])
        elif k == 21:
            ops.append(["range_set", mi, draw(st.integers(0, 2)), draw(st.integers(100, 999))])
        elif k == 17:
            # two values asked into one workbook (every pairing of unnamed / named / default-named sheets),
            # then written and read back
            vs = draw(st.permutations([0, 1, 2, 3]))
            ns = draw(st.permutations(NAMES))
            for j in range(2):
                ops.append(["new_pandas", mi, draw(st.sampled_from(["A", "C", ""])), ns[j], "book.xlsx", vs[j],
                            draw(st.sampled_from(SHEETS))])
            ops.append(["roundtrip", mi])
        else:
            ops.append(["roundtrip", mi])
    return {"ops": ops, "nmodels": nmodels}


def strategy(tier):
    return histories()


# ----------------------------------------------------------------------------

def make_value(i):
    if i % 2 == 0:
        return pd.DataFrame({"a": [i, i + 1], "b": [1.5, 2.5]}, index=pd.Index([10, 20], name="k"))
    return pd.Series([i, i * 2, 7], index=pd.Index([1, 2, 3], name="k"), name="ser%d" % i)


def all_refs(m):
    """[(container description, name, value)] over model-level and all space references (own, incl. derived)"""
    out = []
    for n, v in m.refs.items():
        if not n.startswith("_"):
            out.append(("model", n, v))

    def rec(sp):
        for n, v in sp._own_refs.items():
            out.append((sp.fullname, n, v))
        for ch in sp.spaces.values():
            rec(ch)
    for s in m.spaces.values():
        rec(s)
    return out


class ModelState:
    def __init__(self, idx):
        self.m = mx.new_model("M%d" % idx)
        A = self.m.new_space("A")
        A.new_cells("cel", "lambda: 1")
        A.new_space("Kid")
        B = self.m.new_space("B", bases=[A])
        B.new_cells("bcel", "lambda: 2")        # members of the sub only: names the base cannot take either
        B.new_space("BKid")
        self.m.new_space("C")
        self.values = {}        # value index -> object (per model: models do not share objects here)
        self.carrying = {}      # id(value) -> (value, path, sheet) for values that got a spec and still should have it
        self.open = True

    def value(self, i):
        if i >= 10:
            return self.values.get(i)       # modules (10, 11) and Excel ranges (20..22): the latest one created
        if i not in self.values:
            self.values[i] = make_value(i)
        return self.values[i]

    def space(self, where):
        return self.m if where == "" else self.m.spaces[where]


def check_model(st_, out, op, i, others=None):
    m = st_.m
    refs = all_refs(m)
    bound = {id(v) for _, _, v in refs}
    # values whose last reference is gone stop carrying a spec
    for vid in [vid for vid in st_.carrying if vid not in bound]:
        del st_.carrying[vid]
    want = set(st_.carrying)
    # (a value of another open model bound here as well: its spec is that model's business)
    foreign = set()
    for other in (others or ()):
        if other is not st_ and other.open:
            foreign |= set(other.carrying)
    specs = [s for s in m.iospecs if id(s.value) not in foreign or id(s.value) in want]
    got = {id(s.value) for s in specs}
    if got != want:
        def names(ids):
            return sorted("%s:%s" % (type(st_.carrying[x][0]).__name__ if x in st_.carrying else "?",
                                     [n for c, n, v in refs if id(v) == x]) for x in ids)
        lost = want - got
        leaked = got - want
        detail = []
        if lost:
            detail.append("values still referenced lost their spec: %r" % names(lost))
        if leaked:
            detail.append("specs without any reference to their value: %r" % [repr(s) for s in specs if id(s.value) in leaked])
        return out.fail("iospecs-mismatch", "after %r: %s" % (op, "; ".join(detail)), i)
    if len(specs) != len(got):
        return out.fail("duplicate-spec", "after %r: several specs for one value: %r" % (op, specs), i)
    # the io manager holds nothing else for this model
    mgr = mx.core.mxsys.iomanager
    held = []
    for (group, path), io_ in mgr.ios.items():
        if group is m or group is None:
            for sp in io_.specs.values():
                held.append((str(path), getattr(sp, "sheet", getattr(sp, "_sheet", None)), sp))
    # (files outside the model folders are registered without a model: their values may belong to any open model)
    elsewhere = set()
    for other in (others or ()):
        if other is not st_ and other.open:
            elsewhere |= {id(v) for _, _, v in all_refs(other.m)}
    for path, sheet, sp in held:
        if id(sp.value) not in want and not (os.path.isabs(path) and id(sp.value) in elsewhere):
            return out.fail("manager-leak", "after %r the io manager still holds %r (path %s) whose value no reference "
                                            "of the model is bound to" % (op, sp, path), i)
    locs = []
    for p_, s_, sp in held:
        rng = getattr(sp, "range", None)
        if rng is None or not isinstance(rng, str):
            locs.append((p_, s_))
        else:
            from openpyxl.utils import range_boundaries
            c0, r0, c1, r1 = range_boundaries(rng)
            locs.extend((p_, s_, r, c) for r in range(r0, r1 + 1) for c in range(c0, c1 + 1))
    if len(set(locs)) != len(locs):
        return out.fail("location-shared", "after %r two specs claim the same location: %r" % (
            op, sorted((x for x in set(locs) if locs.count(x) > 1), key=repr)[:4]), i)
    for vid, (v, path, sheet) in st_.carrying.items():
        try:
            sp = m.get_spec(v)
        except Exception as exc:
            return out.fail("get-spec", "after %r get_spec() of a live value raised %r" % (op, exc), i)
        if sp.value is not v:
            return out.fail("get-spec", "after %r get_spec(v).value is not v" % (op,), i)
    return None


def run_case(case):
    out = Outcome()
    reset_session()
    tmp = tempfile.mkdtemp(prefix="vfc18_")
    cwd = os.getcwd()
    os.chdir(tmp)
    try:
        return _run(case, out, tmp)
    finally:
        os.chdir(cwd)
        shutil.rmtree(tmp, ignore_errors=True)


def abspath(path, tmp):
    if isinstance(path, str) and path.startswith("ABS:"):
        return os.path.join(tmp, "outside", path[4:])
    return path


def prepare_files():
    """source workbook and module files the histories load from (in the case's scratch directory)"""
    import openpyxl
    wb = openpyxl.Workbook()
    ws = wb.active
    ws.title = "Sheet1"
    for r in range(1, 7):
        for c in range(1, 7):
            ws.cell(r, c, r * 10 + c)
    wb.save("src.xlsx")
    for j, src in enumerate(MOD_SRC):
        with open("mod%d.py" % j, "w") as f:
            f.write(src)


def _run(case, out, tmp):
    if any(op[0] in ("new_module", "new_range") for op in case["ops"]):
        prepare_files()
    models = [ModelState(j) for j in range(case.get("nmodels", 1))]
    nt = False
    multi = set()       # ids of values that were bound to >=2 references incl. a derived one
    shared_at = {}      # id(value) -> indices of the operations that bound it in a second model
    for i, op in enumerate(case["ops"]):
        k = op[0]
        st_ = models[op[1]]
        if not st_.open:
            continue
        m = st_.m
        try:
            before = model_desc(m)
        except Exception as exc:
            return out.fail("description-raised", "before %r: %r" % (op, exc), i)
        specs_before = {id(s) for s in m.iospecs}
        if k == "new_pandas":
            _, _, where, name, path, vi, sheet = op
            path = abspath(path, tmp)
            v = st_.value(vi)
            try:
                sp_ = st_.space(where)
            except KeyError:
                continue
            ftype = "excel" if path.endswith("xlsx") else "csv"
            try:
                sp_.new_pandas(name, path, v, file_type=ftype, sheet=sheet)
                ok = True
            except Exception as exc:
                ok = False
                err = exc
            if ok:
                st_.carrying[id(v)] = (v, path, sheet)
                out.count("accepted_creations")
                if os.path.isabs(str(path)) and id(v) in shared_at:
                    out.info.setdefault("abs_shared", []).extend(shared_at[id(v)])
            else:
                out.count("rejected_creations")
                try:
                    r = diff(before, model_desc(m))
                except Exception as exc:
                    return out.fail("rejected-creation-corrupts", "after rejected %r (%r) the model cannot be described: %r" % (
                        op, err, exc), i)
                if r:
                    return out.fail("rejected-creation-residue", "%r raised %r but left a change: %s" % (op, err, r), i)
                if {id(s) for s in m.iospecs} != specs_before:
                    return out.fail("rejected-creation-residue", "%r raised %r but model.iospecs changed" % (op, err), i)
        elif k in ("new_module", "new_range"):
            try:
                sp_ = st_.space(op[2])
            except KeyError:
                continue
            name, path = op[3], op[4]
            try:
                if k == "new_module":
                    v = sp_.new_module(name, path, "mod%d.py" % op[5])
                    slot = 10 + op[5]
                else:
                    v = sp_.new_excel_range(name, path, RANGES[op[5]], sheet="Sheet1", loadpath="src.xlsx",
                                            keyids=["r0"] if op[6] else None)
                    slot = 20 + op[5]
                ok = True
            except Exception as exc:
                ok = False
                err = exc
            if ok:
                st_.values[slot] = v
                st_.carrying[id(v)] = (v, path, None)
                out.count("modules_and_ranges")
            else:
                out.count("rejected_creations")
                try:
                    r = diff(before, model_desc(m))
                except Exception as exc:
                    return out.fail("rejected-creation-corrupts", "after rejected %r (%r) the model cannot be described: %r" % (
                        op, err, exc), i)
                if r:
                    return out.fail("rejected-creation-residue", "%r raised %r but left a change: %s" % (op, err, r), i)
                if {id(s) for s in m.iospecs} != specs_before:
                    return out.fail("rejected-creation-residue", "%r raised %r but model.iospecs changed" % (op, err), i)
        elif k == "update_module":
            old = st_.value(10 + op[2])
            if old is None or id(old) not in st_.carrying:
                continue
            where_old = [(c_, n_) for c_, n_, v_ in all_refs(m) if v_ is old]
            try:
                spec = m.get_spec(old)
                if op[3] is None:
                    m.update_module(old)
                else:
                    m.update_module(old, "mod%d.py" % op[3])
            except Exception:
                out.count("rejected_updates")
            else:
                new = spec.value
                now = {(c_, n_): v_ for c_, n_, v_ in all_refs(m)}
                for key in where_old:
                    if key not in now or now[key] is not new or new is old:
                        return out.fail("update-module", "after %r the reference %s.%s is not bound to the new module" % (
                            op, key[0], key[1]), i)
                _, path, _ = st_.carrying.pop(id(old))
                st_.carrying[id(new)] = (new, path, None)
                st_.values[10 + op[2]] = new
                nt = nt or bool(multi)
        elif k == "range_set":
            rng = st_.value(20 + op[2])
            if rng is None or id(rng) not in st_.carrying:
                continue
            try:
                key = sorted(rng.keys(), key=repr)[0]
                rng[key] = op[3]
            except Exception as exc:
                return out.fail("range-set-raised", "%r raised %r" % (op, exc), i)
        elif k == "set_path":
            v = st_.value(op[2])
            if v is None or id(v) not in st_.carrying:
                continue
            newpath = abspath(op[3], tmp)
            try:
                oldpath = str(m.get_spec(v).path)
                m.get_spec(v).path = newpath
            except Exception:
                out.count("rejected_moves")
            else:
                if os.path.isabs(oldpath) and not os.path.isabs(newpath):
                    out.info.setdefault("abs_to_rel", []).append(i)
                if os.path.isabs(newpath):
                    for vid in st_.carrying:
                        if vid in shared_at:
                            out.info.setdefault("abs_shared", []).extend(shared_at[vid])
                # (a workbook is one file: all the specs in it move together)
                for vid, (v_, _, sheet) in list(st_.carrying.items()):
                    try:
                        st_.carrying[vid] = (v_, str(m.get_spec(v_).path), sheet)
                    except Exception:
                        pass
                out.count("moves")
        elif k == "assign":
            _, _, where, name, vi = op
            if st_.value(vi) is None:
                continue
            if vi >= 10 and id(st_.value(vi)) not in st_.carrying:
                # a module / Excel range whose spec is gone is not a value a model can hold (it cannot be
                # saved): binding it again is outside the generated domain
                continue
            try:
                setattr(st_.space(where), name, st_.value(vi))
            except Exception:
                out.count("rejected_assignments")
        elif k == "assign_same":
            _, _, where, name = op
            try:
                o = st_.space(where)
                refs = o.refs if where == "" else o._own_refs
                if name in refs:
                    setattr(o, name, refs[name])
            except Exception:
                out.count("rejected_assignments")
        elif k == "del":
            _, _, where, name = op
            try:
                o = st_.space(where)
                refs = o.refs if where == "" else o._own_refs
                if name in refs:
                    delattr(o, name)
                    nt = nt or bool(multi)
            except Exception:
                out.count("rejected_deletions")
        elif k == "update":
            _, _, vi, wi = op
            old = st_.value(vi)
            if old is None or not isinstance(old, (pd.DataFrame, pd.Series)):
                continue
            new = old if wi in ("none", "same") else st_.value(wi)
            try:
                if wi == "none":
                    m.update_pandas(old)
                else:
                    m.update_pandas(old, new)
                if id(old) in st_.carrying:
                    _, path, sheet = st_.carrying.pop(id(old))
                    st_.carrying[id(new)] = (new, path, sheet)
                nt = nt or bool(multi)
            except Exception:
                out.count("rejected_updates")
        elif k in ("add_bases", "remove_bases"):
            try:
                getattr(m.spaces[op[2]], k)(m.spaces[op[3]])
            except Exception:
                pass
        elif k == "override_then_del_base":
            name = op[2]
            try:
                if name in m.A._own_refs and "B" in m.spaces and name in m.B._own_refs:
                    setattr(m.B, name, m.A._own_refs[name])      # override with the same value
                    delattr(m.A, name)
                    nt = nt or bool(multi)
            except Exception:
                pass
        elif k == "del_space":
            try:
                if op[2] in m.spaces:
                    delattr(m, op[2])
            except Exception as exc:
                return out.fail("del-space-raised", "%r raised %r" % (op, exc), i)
        elif k == "share_value":
            other = models[1 - op[1]]
            if not other.open:
                continue
            v = other.value(op[4])
            try:
                setattr(st_.space(op[2]), op[3], v)
            except KeyError:
                continue
            except Exception:
                out.count("rejected_assignments")
            else:
                out.label("value_shared_by_two_models")
                shared_at.setdefault(id(v), []).append(i)
                if id(v) in other.carrying and os.path.isabs(str(other.carrying[id(v)][1])):
                    out.info.setdefault("abs_shared", []).append(i)
        elif k == "new_space_refs":
            v = st_.value(op[2])
            if v is None or (op[2] >= 10 and id(v) not in st_.carrying):
                continue        # (see "assign")
            try:
                m.new_space("N%d" % i, refs={op[3]: v})
            except Exception as exc:
                return out.fail("new-space-raised", "%r raised %r" % (op, exc), i)
        elif k == "copy_space":
            if op[2] not in m.spaces:
                continue
            try:
                m.spaces[op[2]].copy(m, "Cp%d" % i)
            except Exception as exc:
                # refused (e.g. a member's name is taken at model level): nothing stays behind
                out.count("rejected_copies")
                r = diff(before, model_desc(m))
                if r:
                    return out.fail("rejected-copy-residue", "%r raised %r but left a change: %s" % (op, exc, r), i)
        elif k == "close":
            m.close()
            st_.open = False
            mgr = mx.core.mxsys.iomanager
            left = [io_ for (group, path), io_ in mgr.ios.items() if group is m]
            if left:
                return out.fail("close-leaves-specs", "after close() the io manager still holds %r" % (left,), i)
            for st2 in models:
                if st2.open:
                    f = check_model(st2, out, op, i, models)
                    if f:
                        return f
            continue
        elif k == "roundtrip":
            f = roundtrip(st_, out, tmp, i)
            if f:
                return f
            continue
        # a spec-carrying value bound in the base A and (derived or overriding) in its sub B
        byval = {}
        for c_, n_, v_ in all_refs(m):
            byval.setdefault(id(v_), []).append(c_)
        for vid in st_.carrying:
            cs = byval.get(vid, [])
            if any(x.endswith(".A") for x in cs) and any(x.endswith(".B") for x in cs):
                multi.add(vid)
        for st2 in models:      # (an operation on one model must leave the specs of the others alone)
            if st2.open:
                f = check_model(st2, out, op, i, models)
                if f:
                    return f
        try:
            mx.core.mxsys._check_sanity()
        except AssertionError as a:
            return out.fail("self-check", "mxsys._check_sanity() fails after %r: %r" % (op, a), i)
        except Exception as exc:
            return out.fail("self-check-raised", "mxsys._check_sanity() raised after %r: %r" % (op, exc), i)
    for st_ in models:
        if st_.open:
            f = roundtrip(st_, out, tmp, len(case["ops"]) - 1)
            if f:
                return f
    out.nontrivial = nt
    return out


def equal_value(a, b):
    import types
    try:
        if isinstance(a, types.ModuleType):
            return isinstance(b, types.ModuleType) and a.K == b.K and a.triple(2) == b.triple(2)
        if hasattr(a, "range") and hasattr(a, "keys") and not isinstance(a, (pd.DataFrame, pd.Series)):
            return hasattr(b, "keys") and dict(a) == dict(b)
    except Exception:
        return False
    try:
        if isinstance(a, pd.DataFrame) and isinstance(b, pd.DataFrame):
            return a.reset_index(drop=False).astype(float).equals(b.reset_index(drop=False).astype(float))
        if isinstance(a, pd.Series) and isinstance(b, pd.Series):
            return list(a.astype(float)) == list(b.astype(float)) and list(a.index) == list(b.index)
    except Exception:
        return False
    return False


def roundtrip(st_, out, tmp, i):
    m = st_.m
    path = os.path.join(tmp, "rt_%s" % m.name)
    shutil.rmtree(path, ignore_errors=True)
    try:
        m.write(path)
    except Exception as exc:
        return out.fail("write-raised", "writing a model with %d live specs raised %r" % (len(st_.carrying), exc), i)
    ext = [p_ for (_, p_, _) in st_.carrying.values() if isinstance(p_, str) and os.path.isabs(p_)]
    if ext:
        # a file outside the model folder is one location: a copy of the model read into the same session would
        # claim it a second time.  Checked here: every such file was written.
        for p_ in ext:
            if not os.path.exists(p_) or os.path.getsize(p_) == 0:
                return out.fail("external-file-not-written", "writing the model did not write %s" % p_, i)
        out.count("roundtrips_external")
        return None
    try:
        m2 = mx.read_model(path, name="RT")
    except Exception as exc:
        return out.fail("read-raised", "reading it back raised %r" % (exc,), i)
    try:
        if len(m2.iospecs) != len(st_.carrying):
            return out.fail("roundtrip-specs", "written with %d live specs, read back %d" % (len(st_.carrying), len(m2.iospecs)), i)
        for c, n, v in all_refs(m):
            if id(v) in st_.carrying:
                o = m2 if c == "model" else mx.get_object("RT." + c.split(".", 1)[1])
                refs = o.refs if c == "model" else o._own_refs
                if n not in refs:
                    return out.fail("roundtrip-ref", "reference %s.%s is missing after write/read" % (c, n), i)
                if not equal_value(v, refs[n]):
                    return out.fail("roundtrip-value", "%s.%s: value read back differs:\n%r\nvs\n%r" % (c, n, refs[n], v), i)
    finally:
        m2.close()
    out.count("roundtrips")
    return None
