"""C10 - object-valued references rebind relatively or stay absolute as their mode says.

G1 (exhaustive grid): a fixed space tree A > B > C plus an outside space O, every
definer position x target placement (the definer itself, a cells of it, a
descendant space, a cells in a descendant, an ancestor, an outside space, an
outside cells) x mode (auto / relative / absolute) x deriver (static sub created
with bases=, static sub via add_bases, ItemSpace of the definer, ItemSpace of an
ancestor of the definer, nested ItemSpace) x order (reference before / after the
deriver exists).
G2 (follow-ups per grid cell, drawn by Hypothesis): re-assign the base reference
(other target / mode), remove and re-add the base, rename the definer, write and
read the model (directory) - the binding rule must hold again.
Oracle (R): the expected binding is computed from the statement: relative/auto
references to the defining space or its cells follow the deriving space; inside an
ItemSpace every target inside the root's base tree maps to the dynamic tree;
absolute mode and outside targets keep the original object.  Compared by identity
of the objects and by refmode.  Combinations the library documents as rejections
(relative mode with a target outside the tree) must raise and leave no residue.
"""

import itertools
import os
import shutil
import tempfile

from hypothesis import strategies as st

import modelx as mx

from ..describe import model_desc, diff
from ..drive import reset_session
from ..runner import Outcome

ID = "C10"
LEVEL = "exploration"
DESIGN_REF = "DESIGN.md section 6, C10"
RULE = ("grid cell = (definer, target, mode, deriver, order) over the tree A>B>C + outside O, enumerated exhaustively; each "
        "cell is followed by Hypothesis-drawn follow-up edits (re-assign, base removal/re-addition, rename, write/read); "
        "non-trivial = the expected binding in the deriving space differs from the binding in the defining space (a "
        "rebinding actually has to happen); distinct = case hash")
ASSUMPTIONS = [
    "for static derivation only targets 'the defining space itself or one of its cells' are asserted (child spaces are "
    "not inherited in this version)",
    "relative mode with a target outside the tree is a documented rejection",
]
SIGNATURES = {}

DEFINERS = [("A",), ("A", "B"), ("A", "B", "C")]
TARGETS = ["self", "own_cells", "desc_space", "desc_cells", "ancestor", "out_space", "out_cells"]
MODES = ["auto", "relative", "absolute"]
DERIVERS = ["static_bases", "static_add", "item_definer", "item_ancestor", "item_nested", "item_of_sub"]
WORLDS = ["plain", "prefix", "samename", "samename_top", "samechild"]
STATIC = ("static_bases", "static_add", "item_of_sub")


def EXHAUSTIVE(tier):
    return True


def plan(tier):
    if tier == "quick":
        return {"shards": 8, "examples": 0, "wall": 100}
    return {"shards": 16, "examples": 0, "wall": 1200}


def enumerate_cases(tier, seed):
    follow = ["none", "reassign", "rebase", "rename", "saveload", "chain_override", "two_bases", "diamond"]
    n = 0
    for w, d, t, m, dv, order in itertools.product(WORLDS, DEFINERS, TARGETS, MODES, DERIVERS,
                                                    ("ref_first", "deriver_first")):
        if dv in ("item_ancestor", "item_nested") and len(d) == 1:
            continue
        if w in ("samename", "samename_top") and dv not in STATIC:
            continue        # (the name of the deriving space only matters for static derivation)
        if w == "samename_top" and len(d) == 1:
            continue
        if w == "prefix" and t not in ("out_space", "out_cells"):
            continue        # (the prefix-named sibling only matters as a target)
        if w == "samechild" and (t not in ("out_space", "out_cells") or len(d) == 1):
            continue        # (an outside target under another parent, named like the definer at the same depth)
        fs = follow
        for f in dict.fromkeys(fs):
            yield {"world": w, "definer": list(d), "target": t, "mode": m, "deriver": dv, "order": order, "follow": f}
        n += 1


def strategy(tier):
    return None


# ----------------------------------------------------------------------------

def xpath_of(case):
    """path of the static deriving space: top-level X, or - world 'samename' - a space named like the definer
    under an unrelated parent P"""
    if case.get("world") == "samename":
        return ("P", case["definer"][-1])
    if case.get("world") == "samename_top":
        return (case["definer"][-1],)       # a top-level space named like the (nested) definer
    return ("X",)


def out_path(case):
    """the outside space used as target: O, or - world 'prefix' - a sibling of the definer whose name starts with
    the definer's name"""
    d = tuple(case["definer"])
    if case.get("world") == "prefix":
        return d[:-1] + (d[-1] + "2",)
    if case.get("world") == "samechild":
        return ("Q",) + d[1:]
    return ("O",)


def build_world(case=None):
    m = _build_world()
    if case is not None and case.get("world") == "prefix":
        op = out_path(case)
        parent = obj_at(m, op[:-1]) if op[:-1] else m
        s2 = parent.new_space(op[-1])
        s2.new_cells("oc", "lambda: 1")
    if case is not None and case.get("world") == "samename":
        m.new_space("P")
    if case is not None and case.get("world") == "samechild":
        o = m
        for n in out_path(case):
            o = o.new_space(n)
        o.new_cells("oc", "lambda: 1")
    return m


def _build_world():
    m = mx.new_model("W")
    O = m.new_space("O")
    O.new_cells("oc", "lambda: 1")
    A = m.new_space("A")
    A.new_cells("ac", "lambda: 1")
    B = A.new_space("B")
    B.new_cells("bc", "lambda: 1")
    C = B.new_space("C")
    C.new_cells("cc", "lambda: 1")
    return m


def obj_at(m, path):
    """object for a path whose elements are names or ('item', args)"""
    o = m
    for p in path:
        if isinstance(p, tuple):
            o = o[p[1]]
        elif p in getattr(o, "spaces", {}):
            o = o.spaces[p]
        else:
            o = o.cells[p]
    return o


CELLS_OF = {("A",): "ac", ("A", "B"): "bc", ("A", "B", "C"): "cc", ("O",): "oc"}


def target_path(definer, kind, case=None):
    d = tuple(definer)
    if case is not None and kind == "out_space":
        return out_path(case)
    if case is not None and kind == "out_cells":
        return out_path(case) + ("oc",)
    if kind == "self":
        return d
    if kind == "own_cells":
        return d + (CELLS_OF[d],)
    if kind == "desc_space":
        return {("A",): ("A", "B"), ("A", "B"): ("A", "B", "C")}.get(d)
    if kind == "desc_cells":
        return {("A",): ("A", "B", "bc"), ("A", "B"): ("A", "B", "C", "cc")}.get(d)
    if kind == "ancestor":
        return d[:-1] if len(d) > 1 else None
    if kind == "out_space":
        return ("O",)
    if kind == "out_cells":
        return ("O", "oc")


def expected(case, definer, tpath, mode):
    """(holder path, expected target path | None when not asserted | 'REJECT')"""
    d = tuple(definer)
    dv = case["deriver"]
    xp = xpath_of(case)
    if dv in ("static_bases", "static_add"):
        holder = xp
        if mode == "absolute":
            return holder, tpath
        if tpath == d:
            return holder, xp
        if tpath[:-1] == d and tpath[-1] in CELLS_OF.values():
            return holder, xp + (tpath[-1],)
        if tpath[:len(d)] == d:
            return holder, None             # descendants: not asserted for static derivation
        if mode == "relative":
            return holder, "REJECT"
        return holder, tpath
    if dv == "item_of_sub":
        # an ItemSpace of the static sub: first the static rule, then the ItemSpace rule with the sub as root
        _, e = expected(dict(case, deriver="static_bases"), definer, tpath, mode)
        holder = xp + (("item", (1,)),)
        if e is None:
            # the static sub holds a null object (descendant spaces are not inherited): dangling references are
            # outside the properties (DESIGN.md 11.2), nothing to assert for its ItemSpaces either
            return None, None
        if e == "REJECT":
            return holder, e
        if mode == "absolute":
            return holder, tpath
        if e[:len(xp)] == xp:
            return holder, holder + e[len(xp):]
        return holder, e
    # ItemSpaces: root = the parametrised space instance; inside its base tree -> dynamic counterpart
    if dv == "item_definer":
        rootbase = d
        root = d[:-1] + (d[-1], ("item", (1,)))
    elif dv == "item_ancestor":
        rootbase = ("A",)
        root = ("A", ("item", (1,)))
    else:   # nested: A[1].B[2]
        rootbase = ("A", "B")
        root = ("A", ("item", (1,)), "B", ("item", (2,)))
    if d[:len(rootbase)] != rootbase:
        return None, None
    holder = root + d[len(rootbase):]
    if mode == "absolute":
        return holder, tpath
    if tpath[:len(rootbase)] == rootbase:
        return holder, root + tpath[len(rootbase):]
    if mode == "relative":
        return holder, "REJECT"
    return holder, tpath


def setup_deriver(m, case, when):
    """create the deriving structure; ``when`` = 'deriver' step"""
    d = tuple(case["definer"])
    dv = case["deriver"]
    D = obj_at(m, d)
    xp = xpath_of(case)
    xparent = obj_at(m, xp[:-1]) if xp[:-1] else m
    if dv == "static_bases":
        xparent.new_space(xp[-1], bases=[D])
    elif dv == "item_of_sub":
        xparent.new_space(xp[-1], bases=[D], formula="lambda i: None")
    elif dv == "static_add":
        obj_at(m, xp).add_bases(D)  # X was created before, so that a rejected add_bases can be checked for cleanliness
    elif dv == "item_definer":
        D.formula = "lambda i: None"
    elif dv == "item_ancestor":
        m.A.formula = "lambda i: None"
    else:
        m.A.formula = "lambda i: None"
        m.A.B.formula = "lambda j: None"


def run_case(case):
    out = Outcome()
    reset_session()
    tmp = None
    try:
        m = build_world(case)
        d = tuple(case["definer"])
        xp = xpath_of(case)
        tpath = target_path(d, case["target"], case)
        if tpath is None:
            out.discard = True
            return out
        mode = case["mode"]
        holder, exp = expected(case, d, tpath, mode)
        if holder is None:
            out.discard = True
            return out
        D = obj_at(m, d)
        T = obj_at(m, tpath)
        if case["deriver"] == "static_add":
            (obj_at(m, xp[:-1]) if xp[:-1] else m).new_space(xp[-1])
        steps = ["ref", "deriver"] if case["order"] == "ref_first" else ["deriver", "ref"]
        rejected = None
        desc_before = None
        for sname in steps:
            desc_before = model_desc(m)
            try:
                if sname == "ref":
                    D.set_ref("r", T, mode)
                else:
                    setup_deriver(m, case, sname)
            except Exception as exc:
                rejected = (sname, exc)
                break
        # the ItemSpace itself is created on access
        got = None
        if rejected is None:
            try:
                H = obj_at(m, holder)
                got = getattr(H, "r")
            except Exception as exc:
                rejected = ("access", mx.get_error() or exc)
        if exp == "REJECT":
            if rejected is None:
                return out.fail("relative-outside-accepted", "%s: a relative reference to %s outside the tree was accepted "
                                                             "and is bound to %r" % (fmt(case), ".".join(tpath), got))
            if rejected[0] != "access":
                r = diff(desc_before, model_desc(m))
                if r:
                    return out.fail("rejection-not-clean", "%s: the rejected step %r changed the model: %s" % (
                        fmt(case), rejected[0], r))
            out.label("documented_rejection")
            out.nontrivial = True
            return out
        if rejected is not None:
            return out.fail("unexpected-rejection", "%s: step %r raised %r" % (fmt(case), rejected[0], rejected[1]))
        f = check_binding(m, case, holder, exp, mode, "initially")
        if f:
            return out.fail(f[0], f[1])
        # ---- follow-ups ------------------------------------------------------------------
        fol = case.get("follow", "none")
        if fol == "reassign":
            # another target / mode for the same name, then back
            D.set_ref("r", m.O, "absolute")
            f = check_binding(m, case, holder, ("O",), "absolute", "after re-assigning to an absolute outside target")
            if f:
                return out.fail(f[0], f[1])
            # two different outside objects one after the other in auto mode (they stay what they are)
            D.set_ref("r", m.O, "auto")
            f = check_binding(m, case, holder, ("O",), "auto", "after re-assigning to the outside space O in auto mode")
            if f:
                return out.fail(f[0], f[1])
            D.set_ref("r", m.O.oc, "auto")
            f = check_binding(m, case, holder, ("O", "oc"), "auto", "after re-assigning to the outside cells O.oc in auto mode")
            if f:
                return out.fail(f[0], f[1])
            D.set_ref("r", T, mode)
            f = check_binding(m, case, holder, exp, mode, "after assigning the original value again")
            if f:
                return out.fail(f[0], f[1])
        elif fol == "rebase" and case["deriver"] in STATIC:
            X = obj_at(m, xp)
            X.remove_bases(D)
            if "r" in X._own_refs:
                return out.fail("derived-ref-survives-remove-bases", "%s: X still has r after remove_bases" % fmt(case))
            X.add_bases(D)
            f = check_binding(m, case, holder, exp, mode, "after removing and re-adding the base")
            if f:
                return out.fail(f[0], f[1])
        elif fol == "rename":
            m.O.new_space("pad")        # an unrelated edit first
            if case["deriver"] in STATIC:
                obj_at(m, xp).rename("Y")
                yp = xp[:-1] + ("Y",)
                holder2 = yp + tuple(holder[len(xp):])
                exp2 = exp
                if exp is not None and tuple(exp[:len(xp)]) == xp:
                    exp2 = yp + tuple(exp[len(xp):])
                f = check_binding(m, case, holder2, exp2, mode, "after renaming the deriving space")
                if f:
                    return out.fail(f[0], f[1])
        elif fol == "chain_override" and case["deriver"] in ("static_bases", "static_add") and xp == ("X",):
            # D <- X <- X2: X overrides r with an outside target, X2 is created, the override is deleted again
            m.X.set_ref("r", m.O.oc, "auto")
            m.new_space("X2", bases=[m.X])
            if m.X2.r is not m.O.oc:
                return out.fail("binding", "%s: X2 derives the override of X but r is %r" % (fmt(case), m.X2.r))
            del m.X.r
            f = check_binding(m, case, holder, exp, mode, "after overriding r in X and deleting the override")
            if f:
                return out.fail(f[0], f[1])
            exp2 = None if exp is None else tuple("X2" if p == "X" else p for p in exp)
            f = check_binding(m, case, ("X2",), exp2, mode, "in X2 after the override in X was deleted")
            if f:
                return out.fail(f[0], f[1])
        elif fol == "two_bases" and case["deriver"] in ("static_bases", "static_add") and xp == ("X",):
            # S(B1, D): B1.r points outside; removing B1 makes D the definer of S.r
            B1 = m.new_space("B1")
            B1.set_ref("r", m.O, "auto")
            S = m.new_space("S", bases=[B1, D])
            if S.r is not m.O:
                return out.fail("binding", "%s: S(B1, D).r should come from B1, got %r" % (fmt(case), S.r))
            S.remove_bases(B1)
            exp2 = None if exp is None else tuple("S" if p == "X" else p for p in exp)
            f = check_binding(m, case, ("S",), exp2, mode, "in S after its first base B1 was removed")
            if f:
                return out.fail(f[0], f[1])
        elif fol == "diamond" and case["deriver"] in ("static_bases", "static_add") and xp == ("X",):
            # D <- Bq, D <- Cq (overrides r, absolute, outside target), Sq(Bq, Cq): Sq.r comes from Cq (linearisation
            # Sq, Bq, Cq, D).  Re-assigning D.r must not reach Sq.r; re-assigning Cq.r must.
            Bq = m.new_space("Bq", bases=[D])
            Cq = m.new_space("Cq", bases=[D])
            Cq.set_ref("r", m.O.oc, "absolute")
            Sq = m.new_space("Sq", bases=[Bq, Cq])
            if Sq.r is not m.O.oc:
                return out.fail("binding", "%s: Sq(Bq, Cq).r should come from the override in Cq, got %r" % (fmt(case), Sq.r))
            D.set_ref("r", m.O, "auto")
            if Sq.r is not m.O.oc:
                return out.fail("binding", "%s: after re-assigning D.r, Sq(Bq, Cq).r = %r although it derives from the "
                                           "override in Cq" % (fmt(case), Sq.r))
            if Sq._get_object("r", as_proxy=True).refmode != "absolute":
                return out.fail("refmode", "%s: after re-assigning D.r the mode of Sq.r is %r" % (
                    fmt(case), Sq._get_object("r", as_proxy=True).refmode))
            if Bq.r is not m.O:
                return out.fail("binding", "%s: after re-assigning D.r, Bq.r = %r" % (fmt(case), Bq.r))
            Cq.set_ref("r", m.O, "absolute")
            if Sq.r is not m.O:
                return out.fail("binding", "%s: after re-assigning Cq.r, Sq.r = %r" % (fmt(case), Sq.r))
            D.set_ref("r", T, mode)
            f = check_binding(m, case, holder, exp, mode, "after the diamond re-assignments")
            if f:
                return out.fail(f[0], f[1])
        elif fol == "saveload":
            tmp = tempfile.mkdtemp(prefix="vfc10_")
            path = os.path.join(tmp, "w")
            # ItemSpaces are not part of a saved model: drop them first so that both models are equal
            m.write(path)
            m2 = mx.read_model(path, name="W2")
            f = check_binding(m2, case, holder, exp, mode, "after write/read")
            if f:
                return out.fail(f[0], f[1])
        bd = obj_at(m, d)
        out.nontrivial = exp is not None and tuple(exp) != tuple(tpath)
        out.label("deriver:" + case["deriver"])
        out.label("mode:" + mode)
        return out
    finally:
        if tmp:
            shutil.rmtree(tmp, ignore_errors=True)


def fmt(case):
    return "world %s, definer %s, target %s, mode %s, deriver %s, %s" % (
        case.get("world", "plain"), ".".join(case["definer"]), case["target"], case["mode"], case["deriver"], case["order"])


def check_binding(m, case, holder, exp, mode, when):
    try:
        H = obj_at(m, holder)
        got = getattr(H, "r")
    except Exception as exc:
        return ("binding-raised", "%s, %s: reading r in the deriving space raised %r" % (fmt(case), when, mx.get_error() or exc))
    if all(isinstance(p, str) for p in holder):
        # (inside ItemSpaces a rebound reference is represented by the dynamic object itself: no mode to read)
        try:
            rm_ = H._get_object("r", as_proxy=True).refmode
        except Exception as exc:
            return ("refmode-raised", "%s, %s: reading refmode raised %r" % (fmt(case), when, exc))
        if rm_ != mode:
            return ("refmode", "%s, %s: refmode in the deriving space is %r" % (fmt(case), when, rm_))
    if exp is None:
        return None
    try:
        want = obj_at(m, exp)
    except Exception as exc:
        return ("expected-missing", "%s, %s: expected target %r does not exist (%r)" % (fmt(case), when, exp, exc))
    if got is not want:
        return ("binding", "%s, %s: r is bound to %r, expected %r" % (fmt(case), when, got, want))
    return None
