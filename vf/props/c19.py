"""C19 - model registry: unique names, no model dropped, models isolated from each other.

Generator: histories over up to 5 concurrently open models: new_model(name|None),
write + read_model (with and without name=), rename(n, rename_old) onto free /
taken / already-suffixed / invalid names, close, edits and evaluations in one
model while the others hold values; some models hold a reference to an object of
another model.
Oracle (R: a dict + I): after every step mx.get_models() maps each open model's
current name to exactly that model, names are unique, every model the history
created and did not close is still registered (a collision renames the OLD one
with a _BAK suffix), closing removes exactly one; the public description of
every other model is unchanged by an operation on one model, and the held
values of models without cross references are unchanged.
"""

import importlib
import os
import sys
import shutil
import tempfile

from hypothesis import strategies as st

import modelx as mx

from ..describe import model_desc, diff
from ..drive import reset_session
from ..runner import Outcome

ID = "C19"
LEVEL = "exploration"
DESIGN_REF = "DESIGN.md section 6, C19"
RULE = ("history of 6-25 registry operations over <=5 open models with names from a small pool (so collisions and "
        "already-suffixed names like A_BAK1 occur); non-trivial = >=3 models open at some point and a name collision "
        "(new/read/rename onto a taken name) happened while >=1 other model held values; distinct = case hash")
ASSUMPTIONS = [
    "the registry reference is a dict from name to creation index, updated by the documented rules",
    "closing or renaming through the handle of a closed model may raise or do nothing (it must not touch the registry); "
    "other operations on closed models are outside the generated domain",
]
SIGNATURES = {}

NAMES = ["A", "B", "C", "A_BAK1", "B_BAK2", "Model1", "Model2"]
BAD = ["2bad", "_x", "class", "a b"]


def plan(tier):
    if tier == "quick":
        return {"shards": 8, "examples": 120, "wall": 100}
    return {"shards": 16, "examples": 2000, "wall": 2400}


@st.composite
def histories(draw):
    ops = []
    nmodels = 0
    nslots = 0
    for _ in range(draw(st.integers(6, 25))):
        k = draw(st.integers(0, 15))
        idx = draw(st.integers(0, max(0, nmodels - 1)))
        if k <= 2 or nmodels == 0:
            ops.append(["new_model", draw(st.sampled_from(NAMES + [None, None]))])
            nmodels += 1
        elif k <= 4:
            name = draw(st.sampled_from(NAMES + BAD[:3] + [draw(st.sampled_from(NAMES))]))
            ops.append(["rename", idx, name, draw(st.booleans())])
        elif k == 5:
            ops.append(["close", idx])
        elif k == 15 and nmodels >= 2:
            # a space made from a module file in one model, copied into another model; the file is edited and the
            # space reloaded in the first model only
            j = draw(st.integers(0, nmodels - 1))
            ops += [["module_space", idx], ["copy_across", idx, j], ["eval_src", j], ["reload", idx, draw(st.integers(2, 9))],
                    ["eval_src", j]]
        elif k == 14:
            if draw(st.booleans()):
                ops.append(["close_again", idx])
            else:
                # close, let a new model take the name, close the old handle once more
                ops += [["close", idx], ["new_model_like", idx],
                        draw(st.sampled_from([["close_again", idx], ["rename_stale", idx, draw(st.sampled_from(NAMES))]]))]
                nmodels += 1
        elif k == 6:
            ops.append(["write", idx, nslots, draw(st.booleans())])
            nslots += 1
        elif k == 7 and nslots:
            ops.append(["read", draw(st.integers(0, nslots - 1)), draw(st.sampled_from(NAMES + [None, None, None]))])
            nmodels += 1
        elif k == 8:
            ops.append(["new_model_bad", draw(st.sampled_from(BAD))])
        elif k == 9 and nmodels >= 2:
            ops.append(["xref", idx, draw(st.integers(0, nmodels - 1))])
        elif k == 10 and nmodels >= 2:
            # a pandas object with an IOSpec in one model, bound as a plain reference in another, then released there
            if draw(st.booleans()):
                ops.append(["share_df", idx, draw(st.integers(0, nmodels - 1)), draw(st.sampled_from(["del", "rebind", "close"]))])
            else:
                # two models, each with its own pandas object stored under the SAME relative file name; then the
                # second one lets go of its object (or is closed): the first model keeps its IOSpec
                ops.append(["same_path", idx, draw(st.integers(0, nmodels - 1)), draw(st.sampled_from(["del", "rebind", "close"]))])
        elif k <= 11:
            ops.append(["edit", idx, draw(st.integers(0, 3)), draw(st.integers(0, 99))])
        else:
            ops.append(["eval", idx, draw(st.integers(0, 2))])
    return {"ops": ops}


def strategy(tier):
    return histories()


_modcount = [0]


def populate(m, v):
    s = m.new_space("S")
    s.k = v
    s.new_cells("c", "lambda x: x * k + g")
    s.new_cells("d", "lambda x: c(x) + 1")
    m.g = v + 1
    m.nd = s.c.node(1)      # an element handle kept as a value: it denotes this model's cells wherever the model goes
    s.d(1)
    s.d(2)


def held(m):
    out = {}
    for n, s in m.spaces.items():
        for cn, c in s.cells.items():
            out[(n, cn)] = dict(c._impl.data)
    return out


def run_case(case):
    out = Outcome()
    reset_session()
    root = tempfile.mkdtemp(prefix="vfc19_")
    try:
        return _run(case, out, root)
    finally:
        shutil.rmtree(root, ignore_errors=True)


def _run(case, out, root):
    handles = []        # creation index -> model handle
    is_open = []        # creation index -> bool
    names = {}          # expected registry: name -> creation index
    xrefs = set()       # (holder idx, target idx)
    slots = {}          # slot -> (path, saved name)
    modfiles = {}       # creation index -> module file its space Src was made from
    nt = False
    collision = False

    def expected_other_unchanged(before, touched, op, i):
        for j, h in enumerate(handles):
            if not is_open[j] or j in touched:
                continue
            d = model_desc(h)
            r = diff(before["desc"][j], d)
            if r:
                return out.fail("other-model-changed", "after %r the definitions of model #%d (%s) changed: %s" % (
                    op, j, h.name, r), i)
            if not any(a == j for a, _ in xrefs) and held(h) != before["held"][j]:
                return out.fail("other-model-values-changed", "after %r the held values of model #%d (%s) changed" % (
                    op, j, h.name), i)
        return None

    def registry_ok(op, i):
        reg = mx.get_models()
        openidx = [j for j in range(len(handles)) if is_open[j]]
        if len(reg) != len(openidx):
            return out.fail("registry-size", "after %r: get_models() has %d entries %r, %d models are open" % (
                op, len(reg), sorted(reg), len(openidx)), i)
        seen = set()
        for j in openidx:
            h = handles[j]
            nm = h.name
            if nm in seen:
                return out.fail("duplicate-name", "after %r two open models are named %r" % (op, nm), i)
            seen.add(nm)
            if nm not in reg or reg[nm] is not h:
                return out.fail("registry-mapping", "after %r: model #%d is named %r but get_models() maps that name "
                                                    "to %r (keys %r)" % (op, j, nm, reg.get(nm), sorted(reg)), i)
        if {n: j for n, j in names.items()} != {handles[j].name: j for j in openidx}:
            return out.fail("registry-names", "after %r: names %r, expected %r" % (
                op, {handles[j].name: j for j in openidx}, names), i)
        return None

    def note_backup(name, op, i):
        """an existing model called ``name`` must have been renamed to name_BAK<n>"""
        j = names.pop(name)
        new = handles[j].name
        if not (new.startswith(name + "_BAK") and new[len(name) + 4:].isdigit()):
            return out.fail("backup-name", "after %r the old model %r is now called %r (expected %s_BAK<n>)" % (
                op, name, new, name), i)
        if new in names:
            return out.fail("backup-overwrites", "after %r the backup name %r was already in use" % (op, new), i)
        names[new] = j
        return None

    for i, op in enumerate(case["ops"]):
        k = op[0]
        before = {"desc": {j: model_desc(h) for j, h in enumerate(handles) if is_open[j]},
                  "held": {j: held(h) for j, h in enumerate(handles) if is_open[j]}}
        touched = set()
        nopen = sum(is_open)
        if k == "new_model_like":
            j = op[1]
            if j >= len(handles) or is_open[j]:
                # (keeps creation indices aligned with the generator's count)
                k, op = "new_model", ["new_model", None]
            else:
                k, op = "new_model", ["new_model", handles[j].name]
        if k == "new_model":
            name = op[1]
            m = mx.new_model(name)
            if name is not None and name in names:
                collision = True
                if nopen >= 3:
                    nt = True
                touched |= {a for a, b in xrefs if b == names[name]}
                f = note_backup(name, op, i)
                if f:
                    return f
            if name is not None and m.name != name:
                return out.fail("new-model-name", "new_model(%r) is called %r" % (name, m.name), i)
            if m.name in names:
                return out.fail("new-model-overwrites", "new_model(%r) took the name %r of an open model" % (name, m.name), i)
            handles.append(m); is_open.append(True)
            names[m.name] = len(handles) - 1
            populate(m, len(handles))
            touched.add(len(handles) - 1)
        elif k == "new_model_bad":
            try:
                mx.new_model(op[1])
                return out.fail("invalid-model-name-accepted", "new_model(%r) accepted" % (op[1],), i)
            except ValueError:
                pass
        elif k == "rename":
            j = op[1]
            if j >= len(handles) or not is_open[j]:
                continue
            h = handles[j]
            old = h.name
            new, rename_old = op[2], op[3]
            touched.add(j)
            touched |= {a for a, b in xrefs if b == j}      # their description names the target model
            try:
                h.rename(new, rename_old=rename_old)
                raised = None
            except ValueError as exc:
                raised = exc
            valid = isinstance(new, str) and new.isidentifier() and not new.startswith("_") and new not in (
                "class",)
            if not valid:
                if raised is None:
                    return out.fail("invalid-model-name-accepted", "rename(%r) accepted" % (new,), i)
            elif raised is not None:
                return out.fail("rename-raised", "rename(%r, rename_old=%r) raised %r" % (new, rename_old, raised), i)
            elif new == old:
                pass
            elif new in names:
                if rename_old:
                    collision = True
                    if nopen >= 3:
                        nt = True
                    touched |= {a for a, b in xrefs if b == names[new]}
                    f = note_backup(new, op, i)
                    if f:
                        return f
                    del names[old]
                    names[new] = j
                # without rename_old the request is silently ignored (observed, not asserted either way)
                elif h.name == new:
                    return out.fail("rename-overwrites", "rename(%r) onto a taken name without rename_old took "
                                                         "the name" % (new,), i)
            else:
                del names[old]
                names[new] = j
        elif k == "close":
            j = op[1]
            if j >= len(handles) or not is_open[j]:
                continue
            handles[j].close()
            is_open[j] = False
            del names[handles[j].name]
            touched.add(j)
            # models holding a reference into the closed one are not asserted
            touched |= {a for a, b in xrefs if b == j}
        elif k == "rename_stale":
            # rename() on the handle of a model that was closed earlier (its name may have been taken since)
            j = op[1]
            if j >= len(handles) or is_open[j]:
                continue
            try:
                handles[j].rename(op[2])
            except Exception:
                pass
            out.count("stale_renames")
        elif k == "close_again":
            # close() on the handle of a model that was closed earlier (its name may have been taken since)
            j = op[1]
            if j >= len(handles) or is_open[j]:
                continue
            try:
                handles[j].close()
            except Exception:
                pass
            out.count("stale_closes")
        elif k == "write":
            j = op[1]
            if j >= len(handles) or not is_open[j]:
                continue
            path = os.path.join(root, "slot%d" % op[2] + (".zip" if op[3] else ""))
            if any(b == j or a == j for a, b in xrefs):
                continue        # cross-model references are not part of a saved model
            try:
                if op[3]:
                    handles[j].zip(path)
                else:
                    handles[j].write(path)
            except Exception as exc:
                return out.fail("write-raised", "write of model #%d raised %r" % (j, exc), i)
            slots[op[2]] = (path, handles[j].name)
            touched.add(j)      # path property changes
        elif k == "read":
            if op[1] not in slots:
                continue
            path, saved = slots[op[1]]
            name = op[2]
            target = name or saved
            try:
                m = mx.read_model(path, name=name)
            except Exception as exc:
                return out.fail("read-raised", "read_model(%r, name=%r) raised %r" % (os.path.basename(path), name, exc), i)
            if target in names:
                collision = True
                if nopen >= 3:
                    nt = True
                touched |= {a for a, b in xrefs if b == names[target]}
                f = note_backup(target, op, i)
                if f:
                    return f
            if "nd" in m.refs:
                try:
                    owner = m.nd.obj.model
                except Exception as exc:
                    return out.fail("node-reference", "the element handle read back cannot be used: %r" % (exc,), i)
                if owner is not m:
                    return out.fail("node-crosses-models", "read_model(%r, name=%r): the element handle kept as a reference "
                                    "denotes a cells of model %r, not of the model read" % (
                                        os.path.basename(path), name, getattr(owner, "name", owner)), i)
            if m.name != target:
                return out.fail("read-model-name", "read_model(name=%r) of a model saved as %r is called %r" % (
                    name, saved, m.name), i)
            handles.append(m); is_open.append(True)
            names[m.name] = len(handles) - 1
            touched.add(len(handles) - 1)
        elif k == "xref":
            a, b = op[1], op[2]
            if a == b or a >= len(handles) or b >= len(handles) or not (is_open[a] and is_open[b]):
                continue
            handles[a].S.other = handles[b].S.c
            xrefs.add((a, b))
            touched.add(a)
        elif k == "share_df":
            a, b, how = op[1], op[2], op[3]
            if a == b or a >= len(handles) or b >= len(handles) or not (is_open[a] and is_open[b]):
                continue
            import pandas as pd
            df = pd.DataFrame({"v": [1, 2]}, index=pd.Index([0, 1], name="k"))
            nm = "df%d" % i
            try:
                handles[a].new_pandas(nm, "data%d.csv" % i, df, file_type="csv")
            except Exception as exc:
                return out.fail("new-pandas-raised", "%r raised %r" % (op, exc), i)
            before["desc"][a] = model_desc(handles[a])     # model a now has the spec: it must keep it
            before["held"][a] = held(handles[a])
            setattr(handles[b].S, nm, df)
            touched.add(b)
            if how == "del":
                delattr(handles[b].S, nm)
            elif how == "rebind":
                setattr(handles[b].S, nm, 0)
            else:
                handles[b].close()
                is_open[b] = False
                del names[handles[b].name]
                touched |= {x for x, y in xrefs if y == b}
        elif k == "same_path":
            a, b, how = op[1], op[2], op[3]
            if a == b or a >= len(handles) or b >= len(handles) or not (is_open[a] and is_open[b]):
                continue
            import pandas as pd
            nm = "sp%d" % i
            try:
                for h in (handles[a], handles[b]):
                    h.new_pandas(nm, "same%d.csv" % i, pd.DataFrame({"v": [1, 2]}, index=pd.Index([0, 1], name="k")),
                                 file_type="csv")
            except Exception as exc:
                return out.fail("new-pandas-raised", "%r raised %r" % (op, exc), i)
            before["desc"][a] = model_desc(handles[a])     # model a now has the spec: it must keep it
            before["held"][a] = held(handles[a])
            touched.add(b)
            if how == "del":
                delattr(handles[b], nm)
            elif how == "rebind":
                setattr(handles[b], nm, 0)
            else:
                handles[b].close()
                is_open[b] = False
                del names[handles[b].name]
                touched |= {x for x, y in xrefs if y == b}
            out.label("same-path")
        elif k == "edit":
            j = op[1]
            if j >= len(handles) or not is_open[j]:
                continue
            h = handles[j]
            touched.add(j)
            touched |= {a for a, b in xrefs if b == j}
            try:
                if op[2] == 0:
                    h.S.k = op[3]
                elif op[2] == 1:
                    h.g = op[3]
                elif op[2] == 2:
                    h.S.c[5] = op[3]
                else:
                    h.S.c.formula = "lambda x: x + %d" % op[3]
            except Exception as exc:
                return out.fail("edit-raised", "%r raised %r" % (op, exc), i)
        elif k in ("module_space", "copy_across", "reload", "eval_src"):
            j = op[1]
            if j >= len(handles) or not is_open[j]:
                continue
            modpath = modfiles.get(j)
            try:
                if k == "module_space":
                    if "Src" in handles[j].spaces:
                        continue
                    _modcount[0] += 1
                    modname = "vfc19mod_%d_%d" % (os.getpid(), _modcount[0])
                    modpath = os.path.join(root, modname + ".py")
                    with open(modpath, "w") as f:
                        f.write("def foo(x):\n    return x + 1\n\n\ndef bar(x):\n    return foo(x) * 10\n")
                    importlib.invalidate_caches()
                    sys.path.insert(0, root)
                    try:
                        handles[j].new_space_from_module(modname, name="Src")
                    finally:
                        sys.path.remove(root)
                    modfiles[j] = modpath
                    touched.add(j)
                elif k == "copy_across":
                    t = op[2]
                    if t >= len(handles) or not is_open[t] or t == j or "Src" not in handles[j].spaces \
                            or "Src" in handles[t].spaces:
                        continue
                    handles[j].Src.copy(handles[t], "Src")
                    touched.add(t)
                elif k == "reload":
                    # (only the space that was made from the module is reloaded; reload() of a copy is refused by
                    #  the library)
                    if "Src" not in handles[j].spaces or modpath is None:
                        continue
                    with open(modpath, "w") as f:
                        f.write("def foo(x):\n    return x + %d00\n\n\ndef bar(x):\n    return foo(x) * 10\n" % op[2])
                    st_ = os.stat(modpath)
                    os.utime(modpath, (st_.st_atime + 5 * op[2], st_.st_mtime + 5 * op[2]))
                    importlib.invalidate_caches()
                    sys.path.insert(0, root)
                    try:
                        handles[j].Src.reload()
                    finally:
                        sys.path.remove(root)
                    touched.add(j)
                    out.count("reloads")
                else:
                    if "Src" in handles[j].spaces:
                        handles[j].Src.bar(1)
                        touched.add(j)
            except Exception as exc:
                return out.fail("module-space-raised", "%r raised %r" % (op, mx.get_error() or exc), i)
        elif k == "eval":
            j = op[1]
            if j >= len(handles) or not is_open[j]:
                continue
            try:
                handles[j].S.d(op[2])
            except Exception as exc:
                return out.fail("eval-raised", "%r raised %r" % (op, mx.get_error() or exc), i)
            touched.add(j)
        f = registry_ok(op, i)
        if f:
            return f
        f = expected_other_unchanged(before, touched, op, i)
        if f:
            return f
    out.nontrivial = nt
    if collision:
        out.label("collision")
    return out
