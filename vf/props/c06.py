"""C06 - a value edit discards exactly its dependents; inputs persist.

Generator: DAG-shaped models (static spaces, uncached intermediaries, cells
inside ItemSpaces), warm-up evaluations, then a sequence of value edits
(assign / overwrite / clear_at / clear / clear_all / space and model clear_all /
unrelated reference changes) interleaved with evaluations, under both settings
of the recalculation option.
Oracle (R + execution log): the harness keeps, from the reference call trees
only, which elements hold values and which was computed from which.  After
every edit the set of held elements of the live model must equal
held-before minus the transitive dependents of the edited element (plus/minus
the edited key); kept values are unchanged and re-reading them runs no formula;
is_input is true exactly for assigned keys; inputs survive clear(), unrelated
edits and reference changes and are returned whatever the formula says.  With
recalc on: everything held afterwards equals the reference value and every
discarded leaf dependent is held again.
"""

from hypothesis import strategies as st

import modelx as mx

from .. import gen, ref as R
from ..drive import Real, apply_ref, reset_session, take_ticks, tup, plain_real, EDIT_OPS
from ..memo import MemoSim
from ..runner import Outcome

ID = "C06"
LEVEL = "exploration"
DESIGN_REF = "DESIGN.md section 6, C06"
RULE = ("case = generated model + 4-8 warm-up evaluations + 4-14 steps of value edits and evaluations, recalc flag "
        "drawn per case; non-trivial = some edit hit an element with >=1 held transitive dependent while >=1 held "
        "non-dependent existed (so both 'discard' and 'keep' were exercised); distinct = case hash")
ASSUMPTIONS = [
    "the 'was computed from' relation is taken from the reference interpreter's call trees (vf/ref.py, vf/memo.py)",
    "with recalc on only the final state is compared (the order in which modelx recomputes dependents is unspecified)",
]
SIGNATURES = {}

FEAT = gen.Feat(items=True, uncached=True, uncached_p=2, allow_none=True, max_top=2, max_child=1, max_cells=4, max_rank=5, depth=2, tick=True,
                shadow=False, objrefs=False, item_reads_cells=True)


def plan(tier):
    if tier == "quick":
        return {"shards": 8, "examples": 500, "wall": 100}
    return {"shards": 16, "examples": 6000, "wall": 2400}


@st.composite
def cases(draw, dag=False):
    recalc = draw(st.booleans())        # drawn first (see C04)
    if dag:
        ops, G, _info = gen.gen_dag_model(draw, uncached_p=2, handled=False)
    else:
        ops, G = gen.gen_model_ops(draw, FEAT)
    match_scen = None
    if not dag and draw(st.integers(0, 3)) == 0 and "Qm" not in G.spaces:
        # a table cells (entries assigned by the user, None elsewhere) read through Cells.match by another cells:
        # the reader depends on every entry that was probed, the held None of the more specific key included
        tb = {"name": "tb", "params": [["x", None], ["y", None]], "expr": ["none"], "cached": True, "allow_none": True,
              "form": "lambda", "tick": True}
        rd = {"name": "rd", "params": [["x", None]], "cached": True, "allow_none": None, "form": "lambda", "tick": True,
              "expr": ["bin", "+", ["matchv", ["attr", ["attr", ["name", "_model"], "Qm"], "tb"],
                                    [["var", "x"], ["lit", 2]]], ["var", "x"]]}
        for op in (["new_space", [], "Qm", None, None], ["new_cells", ["Qm"], tb], ["new_cells", ["Qm"], rd]):
            ops.append(op)
            apply_ref(G, op)
        a = draw(st.integers(0, 2))
        edit = draw(st.sampled_from([["set_value", ["Qm"], "tb", [a, None], 7], ["set_value", ["Qm"], "tb", [a, 2], 9],
                                     ["clear_at", ["Qm"], "tb", [a, 2]], ["clear_all", ["Qm"], "tb"],
                                     ["set_value", ["Qm"], "tb", [None, 2], 8]]))
        match_scen = [["set_value", ["Qm"], "tb", [a, None], 5], ["set_value", ["Qm"], "tb", [None, None], 1]]
        if draw(st.integers(0, 3)) != 0:
            match_scen.append(["eval", ["Qm"], "tb", [a, 2], None, "()"])      # the specific entry holds None already
        match_scen += [["eval", ["Qm"], "rd", [a], None, "()"], edit, ["eval", ["Qm"], "rd", [a], None, "()"]]
    sids = gen.all_ctx_ids(G) + gen.item_sids(G, 2)
    hist = []
    gsim = MemoSim()        # the generator's own picture of what is held (used to aim edits)

    def emit_eval(q):
        hist.append(q)
        try:
            exp = R.evaluate(G, tup(q[1]), q[2], tup(q[3]), q[4], budget=20000)
            if exp[0] == "ok":
                top, _ = elem_of(G, tup(q[1]), q[2], tup(q[3]), q[4])
                create_spaces(gsim, G, tup(q[1]))
                gsim.simulate(exp[2], top)
        except Exception:
            pass

    for _ in range(draw(st.integers(4, 8))):
        q = gen.gen_query(draw, G, sids)
        if q:
            q[1] = gen._jsid(tup(q[1]))
            emit_eval(q)
    nsteps = draw(st.integers(4, 14))
    at = draw(st.integers(0, nsteps - 1)) if match_scen else -1
    for step in range(nsteps):
        if step == at:
            for op in match_scen:
                if op[0] == "eval":
                    emit_eval(op)
                else:
                    hist.append(op)
                    apply_ref(G, op)
                    gsim.discard_many([x for x in gsim.held if x[0] == ("Qm",)])
        k = draw(st.integers(0, 13))
        if not dag and k in (3, 11):
            # an element that the parameter formula of a live instance was computed from gets a value from the user
            srcs = sorted({c for e in gsim.held if e[1] is None for c in gsim.pred.get(e, ())
                           if c[1] is not None and c not in gsim.inputs and all(isinstance(x, str) for x in c[0])
                           and None not in c[2]}, key=repr)
            if srcs:
                c = draw(st.sampled_from(srcs))
                op = ["set_value", gen._jsid(c[0]), c[1], list(c[2]), draw(st.integers(300, 340))]
                hist.append(op)
                apply_ref(G, op)
                gsim.assign(c, op[4])
                continue
        if k == 13:
            # a held element nothing depends on, whose formula reads a reference through an attribute path, is
            # overwritten by the user; then that reference changes: the assigned value must stay
            from ..expr import walk
            leafs = []
            for e in sorted(gsim.held, key=repr):
                if e[1] is None or e in gsim.inputs or gsim.dependents(e) or not all(isinstance(x, str) for x in e[0]):
                    continue
                try:
                    cd = G.find_cells(G.space(e[0]), e[1])[1]
                except Exception:
                    continue
                exprs = list(cd.terms) if cd.terms else [cd.expr]
                if cd.cached and any(n[0] == "attr" and n[2] in ("r0", "g0") for x in exprs for n in walk(x)):
                    leafs.append(e)
            if dag and draw(st.booleans()):
                # one of the two references changes (discarding what was computed from it), then a discarded
                # element whose own formula reads a reference gets a value from the user, then the other reference
                # changes: the assigned value stays
                readers = []
                for e in sorted(gsim.held, key=repr):
                    if e[1] is None or e in gsim.inputs or not all(isinstance(x, str) for x in e[0]) or None in e[2]:
                        continue
                    try:
                        cd = G.find_cells(G.space(e[0]), e[1])[1]
                    except Exception:
                        continue
                    exprs = list(cd.terms) if cd.terms else [cd.expr]
                    if cd.cached and any((n[0] == "attr" and n[2] in ("r0", "g0")) or (n[0] == "name" and n[1] in ("r0", "g0"))
                                         for x in exprs for n in walk(x)):
                        readers.append(e)
                if readers:
                    e = draw(st.sampled_from(readers))
                    rops = [["set_ref", ["S0"], "r0", ["v", draw(st.integers(30, 39))], None],
                            ["set_ref", [], "g0", ["v", draw(st.integers(30, 39))], None]]
                    if draw(st.booleans()):
                        rops.reverse()
                    op = ["set_value", gen._jsid(e[0]), e[1], list(e[2]), draw(st.integers(251, 290))]
                    for h in (rops[0], op, rops[1]):
                        hist.append(h)
                        apply_ref(G, h)
                        if h is op:
                            gsim.assign(e, op[4])
                        else:
                            gsim.discard_many([x for x in gsim.held if x not in gsim.inputs])
                continue
            if leafs and dag:
                e = draw(st.sampled_from(leafs))
                op = ["set_value", gen._jsid(e[0]), e[1], list(e[2]), draw(st.integers(200, 250))]
                hist.append(op)
                apply_ref(G, op)
                gsim.assign(e, op[4])
                for rop in (["set_ref", ["S0"], "r0", ["v", draw(st.integers(20, 29))], None],
                            ["set_ref", [], "g0", ["v", draw(st.integers(20, 29))], None]):
                    hist.append(rop)
                    apply_ref(G, rop)
                gsim.discard_many([x for x in gsim.held if x not in gsim.inputs])
            continue
        if k == 12:
            # copy a cells that has assigned values into a space that lacks the name (same name: the formula's
            # tick call carries it); the copy starts with the same assigned values
            cands = sorted((kk for kk, d in G.inputs.items() if d and all(isinstance(x, str) for x in kk[0])), key=repr)
            if cands:
                src, name = draw(st.sampled_from(cands))
                tgts = [t for t in G.all_spaces() if G.find_cells(t, name) is None and name not in t.children
                        and G.find_ref(t, name) is None and t.formula is None]
                if tgts:
                    t = draw(st.sampled_from(tgts))
                    op = ["copy_cells", list(src), name, list(t.path), name]
                    hist.append(op)
                    apply_ref(G, op)
                    for key, v in G.inputs.get((t.path, name), {}).items():
                        gsim.assign((t.path, name, key), v)
                    sids = gen.all_ctx_ids(G) + gen.item_sids(G, 2)
            continue
        q = gen.gen_query(draw, G, sids)
        if q is None:
            break
        q[1] = gen._jsid(tup(q[1]))
        sid, name, args = q[1], q[2], q[3]
        cdef = G.find_cells(R.Evaluator(G).ctx_of(tup(sid)).base, name)[1]
        full = [a for a in args] + [p[1] for p in cdef.params[len(args):]]
        if q[4]:
            full = None
        # aim most edits at held elements that have dependents
        aimed = sorted((e for e in gsim.held if e[1] is not None and e not in gsim.inputs and gsim.dependents(e)),
                       key=repr)
        if aimed and 3 <= k <= 9 and draw(st.integers(0, 3)) != 0:
            e = draw(st.sampled_from(aimed))
            sid, name, full = gen._jsid(e[0]), e[1], list(e[2])
            cdef = G.find_cells(R.Evaluator(G).ctx_of(e[0]).base, name)[1]
        if k <= 2:
            emit_eval(q)
        elif k <= 6 and full is not None and cdef.cached and None not in full:
            val = draw(st.integers(100, 199))
            if cdef.allow_none and draw(st.integers(0, 2)) == 0:
                val = None
            op = ["set_value", sid, name, full, val]
            hist.append(op)
            apply_ref(G, op)
            gsim.assign((tup(sid), name, tuple(full)), op[4])
            if draw(st.integers(0, 3)) == 0:
                # the dependents are computed again, then the very same value is assigned once more: that is an
                # overwrite like any other (its dependents are discarded)
                for _ in range(draw(st.integers(1, 3))):
                    q2 = gen.gen_query(draw, G, sids)
                    if q2:
                        q2[1] = gen._jsid(tup(q2[1]))
                        emit_eval(q2)
                hist.append(list(op))
                gsim.assign((tup(sid), name, tuple(full)), op[4])
        elif k == 7 and full is not None and None not in full:
            # (sometimes spelled with the defaulted arguments left out, as the query was)
            spelled = list(args) if (len(args) < len(full) and list(full[:len(args)]) == list(args)
                                     and draw(st.booleans())) else full
            hist.append(["clear_at", sid, name, spelled])
            apply_ref(G, ["clear_at", sid, name, full])
            gsim.discard((tup(sid), name, tuple(full)))
        elif k == 8:
            hist.append(["clear", sid, name])
            gsim.discard_many([e for e in gsim.held if e[0] == tup(sid) and e[1] == name and e not in gsim.inputs])
        elif k == 9:
            hist.append(["clear_all", sid, name])
            apply_ref(G, hist[-1])
            gsim.discard_many([e for e in gsim.held if e[0] == tup(sid) and e[1] == name])
        elif k == 10:
            # a new reference nobody reads, or a new value for one the formulas read (by name / attribute path)
            which = draw(st.integers(0, 3))
            if which == 0:
                hist.append(["set_ref", sid[:1], "u0", ["v", draw(st.integers(0, 9))], None])
            elif which == 1:
                hist.append(["set_ref", [], "u1", ["v", draw(st.integers(0, 9))], None])
            elif which == 2 and dag:
                hist.append(["set_ref", ["S0"], "r0", ["v", draw(st.integers(10, 19))], None])
            elif dag:
                hist.append(["set_ref", [], "g0", ["v", draw(st.integers(10, 19))], None])
            else:
                hist.append(["set_ref", [], "u1", ["v", draw(st.integers(0, 9))], None])
            apply_ref(G, hist[-1])
            gsim.discard_many([e for e in gsim.held if e not in gsim.inputs])
        else:
            if draw(st.integers(0, 3)) == 0:
                hist.append(["clear_all_model"])
            else:
                hist.append(["clear_all_space", [x for x in sid if isinstance(x, str)][:draw(st.integers(1, 2))]])
            apply_ref(G, hist[-1])
            gsim.discard_many(list(gsim.held))
    return {"ops": ops + [["recalc", recalc]] + hist}


def strategy(tier):
    return st.one_of(cases(), cases(dag=True))


def live_held(real):
    """elements holding values in the live model: cells elements and ItemSpace elements"""
    out = {}
    for (sid, n), d in real.held().items():
        for key, v in d.items():
            out[(sid, n, key)] = v

    def rec(sp):
        for k, it in sp._impl.param_spaces.items():
            out[(sp._idtuple[1:], None, k)] = "<itemspace>"
            rec(it.interface)
        for ch in sp.spaces.values():
            rec(ch)
    for s in real.m.spaces.values():
        rec(s)
    return out


def elem_of(rm, sid, name, args, kwargs=None):
    ev = R.Evaluator(rm)
    ctx = ev.ctx_of(sid)
    found = rm.find_cells(ctx.base, name)
    if found is None:
        return None
    ba = found[1].signature().bind(*args, **(kwargs or {}))
    ba.apply_defaults()
    return (ctx.sid, name, tuple(ba.arguments.values())), found[1]


def run_case(case):
    out = Outcome()
    reset_session()
    real = Real()
    rm = R.RModel()
    sim = MemoSim()
    recalc = False
    in_history = False      # build operations come first, the history starts at the recalc marker
    nt = False
    ops = case["ops"]
    for i, op in enumerate(ops):
        k = op[0]
        if k == "recalc":
            recalc = bool(op[1])
            real.apply(op)
            in_history = True
            continue
        if k in ("new_space", "new_cells", "set_formula", "add_bases") or (
                k == "set_ref" and op[2][0] in "rgo" and not in_history):
            res = real.apply(op)
            if res[0] == "ok":
                apply_ref(rm, op)
            continue
        if k == "eval":
            sid = tup(op[1])
            try:
                if elem_of(rm, sid, op[2], tup(op[3]), op[4]) is None:
                    continue
                exp = R.evaluate(rm, sid, op[2], tup(op[3]), op[4])
            except R.Budget:
                out.discard = True
                return out
            except (KeyError, TypeError):
                continue
            take_ticks()
            res = real.apply(op)
            ticks = take_ticks()
            if exp[0] != "ok":
                if res[0] != "err" or res[1] != exp[1]:
                    return out.fail("error-kind", "%r: modelx %r, reference %r" % (op, res, exp[:2]), i)
                # failed evaluations are C05's business: resynchronise the picture conservatively
                out.discard = True
                return out
            got = ("ok", plain_real(res[1])) if res[0] == "ok" else res
            if got != ("ok", exp[1]):
                return out.fail("value", "%r: modelx %r, reference %r" % (op, got, exp[:2]), i)
            trace = exp[2]
            top, _ = elem_of(rm, sid, op[2], tup(op[3]), op[4])
            pred = create_spaces(sim, rm, sid) + sim.simulate(trace, top)
            if ticks != pred:
                return out.fail("execution-log", "%r executed %r, expected %r" % (op, ticks, pred), i)
            f = compare_held(real, sim, rm, "after evaluation %r" % (op,))
            if f:
                return out.fail(f[0], f[1], i)
            continue
        if k == "copy_cells":
            res = real.apply(op)
            if res[0] != "ok":
                continue
            apply_ref(rm, op)
            dst = tuple(op[3])
            for key, v in rm.inputs.get((dst, op[4]), {}).items():
                sim.assign((dst, op[4], key), v)
            out.count("copies")
            # a new name may discard computed values of the target namespace (coarse invalidation is allowed);
            # assigned values - the copied ones included - must be there
            after = live_held(real)
            for e, v in list(sim.inputs.items()):
                if not all(isinstance(x, str) for x in e[0]):
                    # an assigned value inside an ItemSpace lives as long as the instance (a new member in the tree
                    # the instance replicates discards it: C07): not asserted, forgotten with the instance
                    if e not in after:
                        rm.inputs.get((e[0], e[1]), {}).pop(e[2], None)
                    continue
                if e not in after or plain_real(after[e]) != v:
                    return out.fail("input-lost-on-copy", "assigned value %r=%r is %r after %r" % (
                        e, v, after.get(e, "<gone>"), op), i)
            extra = set(after) - sim.held
            if extra:
                return out.fail("held-set", "values appeared after %r: %r" % (op, sorted(extra, key=repr)[:5]), i)
            sim.discard_many(list(sim.held - set(after)))
            if sim.held != set(after):
                return out.fail("held-set", "after %r a value was dropped while something computed from it "
                                "is still held: %r" % (op, sorted(set(after) - sim.held, key=repr)[:5]), i)
            continue
        # ---- value edits ---------------------------------------------------------
        before = live_held(real)
        gone = None
        target = None
        if k in ("set_value", "clear_at"):
            sid = tup(op[1])
            try:
                eo = elem_of(rm, sid, op[2], tup(op[3]))
            except (KeyError, TypeError):
                continue
            if eo is None:
                continue
            target, cdef = eo
            if k == "set_value" and not cdef.cached:
                res = real.apply(op)
                if res[0] == "ok":
                    return out.fail("assign-uncached", "assignment to uncached cells accepted: %r" % (op,), i)
                continue
            # the ItemSpace must exist for an assignment inside it: evaluating the space is an evaluation
            deps = sim.dependents(target)
            leaves = sim.leaf_dependents(target)
            if deps and (sim.held - deps - {target}):
                nt = True
        take_ticks()
        res = real.apply(op)
        ticks = take_ticks()
        if res[0] != "ok":
            if recalc and k == "set_value":
                # the immediate recalculation of a dependent failed (e.g. a None flowed into it): failed
                # evaluations are C05's business - when the reference, too, fails that way for some dependent
                import copy
                rm2 = copy.deepcopy(rm)
                apply_ref(rm2, op)
                kinds = set()
                for e in sim.dependents(target):
                    try:
                        if e[1] is None:
                            tr = R.Evaluator(rm2)
                            tr.item_ctx(tr.ctx_of(e[0]), e[2])
                        else:
                            ex = R.evaluate(rm2, e[0], e[1], e[2])
                            if ex[0] != "ok":
                                kinds.add(ex[1])
                    except R.Budget:
                        kinds.add(res[1])
                    except Exception as exc:
                        kinds.add(type(exc).__name__)
                if res[1] in kinds:
                    # the assignment itself stands: the value is held and registered as assigned by the user
                    try:
                        c_ = real.ctx(tup(op[1])).cells[op[2]]
                        kept = c_._impl.data.get(tuple(target[2]), "<gone>")
                        isin = c_.is_input(*target[2])
                    except Exception as exc:
                        kept, isin = "<%r>" % (exc,), None
                    if kept != op[4] or isin is not True:
                        return out.fail("assigned-value-after-failed-recalc", "%r: recomputing a dependent failed (%s); the "
                                        "assigned value reads %r, is_input %r" % (op, res[1], kept, isin), i)
                    out.discard = True
                    return out
                return out.fail("recalc-raised", "%r with recalc on raised %s; recomputing the dependents fails with %r "
                                "in the reference" % (op, res[1], sorted(kinds)), i)
            return out.fail("edit-raised", "%r -> %r" % (op, res), i)
        if k in ("set_value", "clear_at", "clear", "clear_all"):
            # addressing a cells inside an ItemSpace creates the instance (an evaluation of the space element)
            created = create_spaces(sim, rm, tup(op[1]))
        else:
            created = []
        if k == "set_value":
            gone = sim.assign(target, op[4])
            apply_ref(rm, op)
        elif k == "clear_at":
            gone = sim.discard(target)
            apply_ref(rm, ["clear_at", op[1], op[2], list(target[2])])     # (the bound key, defaults filled in)
        elif k == "clear":
            sid = tup(op[1])
            els = [e for e in sim.held if e[0] == sid and e[1] == op[2] and e not in sim.inputs]
            gone = sim.discard_many(els)
        elif k == "clear_all":
            sid = tup(op[1])
            els = [e for e in sim.held if e[0] == sid and e[1] == op[2]]
            gone = sim.discard_many(els)
            apply_ref(rm, op)
        elif k == "clear_all_space":
            path = tuple(op[1])
            els = [e for e in sim.held if under(e, path)]
            gone = sim.discard_many(els)
            apply_ref(rm, op)
        elif k == "clear_all_model":
            gone = sim.discard_many(list(sim.held))
            apply_ref(rm, op)
        elif k == "set_ref":
            # a new name may discard computed values of that namespace (coarse invalidation is allowed);
            # what the property promises is that assigned values survive
            apply_ref(rm, op)
            after = live_held(real)
            for e, v in list(sim.inputs.items()):
                if not all(isinstance(x, str) for x in e[0]):
                    # an assigned value inside an ItemSpace lives as long as the instance: instances are
                    # re-created when the definitions they were built from change (C07), not asserted here
                    if e not in after:
                        rm.inputs.get((e[0], e[1]), {}).pop(e[2], None)
                    continue
                if e not in after or plain_real(after[e]) != v:
                    return out.fail("input-lost-on-reference-change",
                                    "assigned value %r=%r is %r after %r" % (e, v, after.get(e, "<gone>"), op), i)
            extra = set(after) - sim.held
            if extra:
                return out.fail("held-set", "values appeared after %r: %r" % (op, sorted(extra, key=repr)[:5]), i)
            sim.discard_many(list(sim.held - set(after)))
            if sim.held != set(after):
                return out.fail("held-set", "after %r a value was dropped while something computed from it "
                                "is still held: %r" % (op, sorted(set(after) - sim.held, key=repr)[:5]), i)
            out.count("reference_changes")
            continue
        else:
            continue
        # an assigned value inside an instance that the edit discarded went with the instance (instances live as long
        # as what their parameter formula was computed from)
        for g in gone:
            if g[1] is not None and not all(isinstance(x, str) for x in g[0]) and not (k == "set_value" and g == target):
                rm.inputs.get((g[0], g[1]), {}).pop(g[2], None)
        out.count("edits")
        out.count("discarded", len(gone))
        if recalc and k == "set_value":
            # dependents are recomputed at once: leaf dependents must be held again, all values correct
            after = live_held(real)
            f = check_recalc(real, rm, sim, target, gone, after, ticks, leaves)
            if f:
                return out.fail(f[0], f[1] + " [edit %r]" % (op,), i)
            # resynchronise the picture with what was recomputed (order is unspecified)
            resync(sim, rm, after)
            continue
        if ticks[:len(created)] == created:
            ticks = ticks[len(created):]        # (what the parameter formulas ran to create the addressed instance)
        if ticks and not recalc:
            return out.fail("edit-executed-formulas", "%r ran formulas %r although recalc is off" % (op, ticks), i)
        f = compare_held(real, sim, rm, "after %r" % (op,), before)
        if f:
            return out.fail(f[0], f[1], i)
        # re-reading every kept value runs no formula
        take_ticks()
        for e in sorted(sim.held, key=repr):
            if e[1] is None:
                continue
            r = real.apply(["eval", list(e[0]), e[1], list(e[2]), None, "()"])
            if r[0] != "ok":
                return out.fail("kept-value-unreadable", "%r -> %r after %r" % (e, r, op), i)
        ticks = take_ticks()
        if ticks:
            return out.fail("kept-value-recomputed", "re-reading kept values after %r ran %r" % (op, ticks), i)
    out.nontrivial = nt
    if recalc:
        out.label("recalc_on")
    return out


def under(e, path):
    sp = tuple(x for x in e[0])
    stat = []
    for x in sp:
        stat.append(x)
    return tuple(e[0][:len(path)]) == path


def ensure_spaces(sim, rm, sid):
    """ItemSpaces on the way to sid exist after an operation that addressed them"""
    for j, part in enumerate(sid):
        if not isinstance(part, str):
            sim.held.add((tuple(sid[:j]), None, tuple(part)))


def create_spaces(sim, rm, sid):
    """like ensure_spaces, with what the parameter formulas run: returns the predicted execution log of creating
    the instances on the way to sid that do not exist yet (a parameter formula may call cells)"""
    log = []
    for j, part in enumerate(sid):
        if isinstance(part, str):
            continue
        e = (tuple(sid[:j]), None, tuple(part))
        if e not in sim.held:
            try:
                tr = R.Evaluator(rm)
                tr.item_ctx(tr.ctx_of(tuple(sid[:j])), tuple(part))
                log += sim.simulate(tr.trace, e)
            except Exception:
                pass
        sim.held.add(e)
    return log


def compare_held(real, sim, rm, when, before=None):
    live = live_held(real)
    lk = set(live)
    if lk != sim.held:
        missing = sorted(sim.held - lk, key=repr)[:6]
        extra = sorted(lk - sim.held, key=repr)[:6]
        return ("held-set", "%s: values that must have been kept are gone: %r; values that must have been "
                            "discarded are still held: %r" % (when, missing, extra))
    for e, v in sim.inputs.items():
        if plain_real(live[e]) != v:
            return ("input-value", "%s: assigned value of %r is %r, expected %r" % (when, e, live[e], v))
    ik = {(s, n, key) for (s, n), ks in real.input_keys().items() for key in ks}
    if ik != set(sim.inputs):
        return ("is-input", "%s: is_input keys %r, assigned keys %r" % (when, sorted(ik, key=repr)[:6],
                                                                       sorted(sim.inputs, key=repr)[:6]))
    if before is not None:
        for e in lk:
            if e in before and e not in sim.inputs and live[e] != before[e] and e[1] is not None:
                return ("kept-value-changed", "%s: %r was %r, now %r" % (when, e, before[e], live[e]))
    return None


def check_recalc(real, rm, sim, target, gone, after, ticks, leaves):
    # nothing executes twice among cached cells
    seen = set()
    for t in ticks:
        cached = True
        try:
            cdef = rm.find_cells(R.Evaluator(rm).ctx_of(t[0]).base, t[1])[1]
            cached = cdef.cached
        except Exception:
            pass
        if cached and t in seen:
            return ("recalc-executed-twice", "%r executed twice during recalculation" % (t,))
        seen.add(t)
    # every value held afterwards equals the reference value
    for e, v in after.items():
        if e[1] is None:
            continue
        try:
            exp = R.evaluate(rm, e[0], e[1], e[2])
        except R.Budget:
            continue
        if exp[0] != "ok" or exp[1] != plain_real(v):
            return ("recalc-value", "after recalculation %r holds %r, reference %r" % (e, v, exp[:2]))
    # kept values are still there
    for e in sim.held:
        if e not in after:
            return ("recalc-lost", "%r should have been kept (not a dependent of %r) but is gone" % (e, target))
    # discarded leaf dependents are held again
    # (an element inside an instance that the edit discarded does not exist until the instance is asked for again)
    dead = [x for x in gone if x[1] is None]

    def inside_discarded(g):
        return any(g[0][:len(d[0]) + 1] == d[0] + (d[2],) for d in dead)
    for g in leaves:
        if g[1] is not None and g not in after and not inside_discarded(g):
            return ("recalc-missing-leaf", "leaf dependent %r of %r was not recomputed at once" % (g, target))
    return None


def resync(sim, rm, after):
    """rebuild the picture after a recalculation from reference call trees of what is now held"""
    keep_inputs = dict(sim.inputs)
    sim.held = set()
    sim.inputs = {}
    sim.succ = {}
    sim.pred = {}
    for e, v in keep_inputs.items():
        if e in after:
            sim.held.add(e)
            sim.inputs[e] = v
    for e in sorted(after, key=repr):
        if e in sim.inputs:
            continue
        if e[1] is None:
            sim.held.add(e)
            continue
    for e in sorted((x for x in after if x[1] is None), key=lambda x: (len(x[0]), repr(x))):
        # what the instance was created from (its parameter formula may have called cells)
        try:
            tr = R.Evaluator(rm)
            tr.item_ctx(tr.ctx_of(e[0]), e[2])
            sim.held.discard(e)
            sim.simulate(tr.trace, e)
        except Exception:
            pass
        sim.held.add(e)
    for e in sorted(after, key=repr):
        if e in sim.inputs or e[1] is None:
            continue
        try:
            exp = R.evaluate(rm, e[0], e[1], e[2])
        except R.Budget:
            continue
        if exp[0] == "ok":
            sim.simulate(exp[2], e)
    # simulate may have added elements that are not held in reality; restrict
    extra = sim.held - set(after)
    sim._remove(extra)
