"""Oracles shared by several properties: structure (membership / derivation /
bases) against derivation from scratch, and the evaluation battery."""

from . import ref as R
from .drive import plain_real, tup
from .expr import cells_source


def hidden(n):
    return n.startswith("_")


def check_structure(real, rm, check_values=True):
    """Compare every static space of the live model with the reference model.

    Returns None or (oracle, detail).
    """
    m = real.m
    # model level
    names = set(m.spaces)
    if names != set(rm.spaces):
        return ("model-spaces", "model.spaces %r, reference %r" % (sorted(names), sorted(rm.spaces)))
    mrefs = {n for n in m.refs if not hidden(n)}
    if mrefs != set(rm.refs):
        return ("model-refs", "model.refs %r, reference %r" % (sorted(mrefs), sorted(rm.refs)))
    for s in rm.all_spaces():
        path = s.path
        try:
            sp = real.space(path)
        except KeyError:
            return ("space-missing", "space %s missing in live model" % ".".join(path))
        dotted = ".".join(path)
        if set(sp.spaces) != set(s.children):
            return ("child-spaces", "%s.spaces %r, reference %r" % (dotted, sorted(sp.spaces), sorted(s.children)))
        # bases == C3
        try:
            mro = rm.mro(s)
        except (TypeError, ValueError) as exc:
            return ("reference-mro", "accepted base lists have no linearisation at %s: %s" % (dotted, exc))
        exp_bases = [".".join(b.path) for b in mro[1:]]
        got_bases = [b.fullname.split(".", 1)[1] for b in sp.bases]
        if got_bases != exp_bases:
            return ("bases", "%s.bases %r, C3 of accepted direct bases %r" % (dotted, got_bases, exp_bases))
        # cells
        exp_cells = rm.cells_names(s)
        got_cells = list(sp.cells)
        if set(got_cells) != set(exp_cells):
            return ("cells-names", "%s.cells %r, defined+derived from scratch %r" % (dotted, sorted(got_cells), sorted(exp_cells)))
        for n in exp_cells:
            definer, cdef = rm.find_cells(s, n)
            c = sp.cells[n]
            if c._is_derived() != (definer is not s):
                return ("cells-derived-flag", "%s.%s _is_derived()=%r, reference definer %s" % (
                    dotted, n, c._is_derived(), ".".join(definer.path)))
            want = cells_source(cdef.as_dict(), name=n).strip()
            got = (c.formula.source or "").strip()
            if got != want:
                return ("cells-formula", "%s.%s formula %r; first definer in C3 order is %s with %r" % (
                    dotted, n, got, ".".join(definer.path), want))
            if c.is_cached != cdef.cached:
                return ("cells-cached-flag", "%s.%s is_cached=%r; definer %s has %r" % (
                    dotted, n, c.is_cached, ".".join(definer.path), cdef.cached))
        # references
        exp_refs = rm.ref_names(s)
        got_refs = [n for n in sp._own_refs if not hidden(n)]
        if set(got_refs) != set(exp_refs):
            return ("refs-names", "%s._own_refs %r, defined+derived from scratch %r" % (dotted, sorted(got_refs), sorted(exp_refs)))
        if check_values:
            ev = R.Evaluator(rm)
            ctx = R.static_ctx(rm, s)
            for n in exp_refs:
                definer, rdef = rm.find_ref(s, n)
                try:
                    want = R.plain(ev.bind_ref(ctx, definer, rdef))
                except LookupError:
                    continue
                got = plain_real(sp._own_refs[n])
                if got != want:
                    return ("ref-value", "%s.%s = %r; first definer in C3 order is %s giving %r" % (
                        dotted, n, got, ".".join(definer.path), want))
    # no extra spaces in the live model
    live = {s._idtuple[1:] for s in real.all_static_spaces()}
    refp = {s.path for s in rm.all_spaces()}
    if live != refp:
        return ("space-extra", "live spaces %r, reference %r" % (sorted(live - refp), sorted(refp - live)))
    return None


def query_battery(rm, max_args=2):
    """[(sid, name, args)] over all cells of all static spaces"""
    qs = []
    for s in rm.all_spaces():
        for n in rm.cells_names(s):
            cdef = rm.find_cells(s, n)[1]
            k = len(cdef.params)
            if k == 0:
                qs.append((s.path, n, ()))
            elif k == 1:
                for a in range(max_args):
                    qs.append((s.path, n, (a,)))
            else:
                qs.append((s.path, n, (0,) * k))
                qs.append((s.path, n, tuple(range(1, k + 1))))
    return qs


def real_eval(real, sid, name, args):
    return real.apply(["eval", list(sid), name, list(args), None, "()"])


def norm_real(res):
    if res[0] == "ok":
        return ("ok", plain_real(res[1]))
    return res


def check_values(real, rm, queries=None):
    """every query answers as the reference says; returns None or (oracle, detail)"""
    for sid, name, args in (queries if queries is not None else query_battery(rm)):
        try:
            exp = R.evaluate(rm, sid, name, args)
        except R.Budget:
            continue
        got = norm_real(real_eval(real, sid, name, args))
        if exp[0] == "ok":
            if got != ("ok", exp[1]):
                return ("value", "%s.%s%r: modelx %r, reference %r" % (".".join(map(str, sid)), name, args, got, exp[:2]))
        elif got[0] != "err" or got[1] != exp[1]:
            return ("error-kind", "%s.%s%r: modelx %r, reference %r" % (".".join(map(str, sid)), name, args, got, exp[:2]))
    return None
