"""Tiers, sharding, budgets, known findings, evidence, exit codes.

A property module (vf/props/cXX.py) provides

  ID, LEVEL, RULE, ASSUMPTIONS, DESIGN_REF
  plan(tier)                 -> {"shards": n, "examples": per-shard examples, "wall": seconds per shard}
  strategy(tier)             -> Hypothesis strategy producing a *case* (JSON-able dict)
  run_case(case)             -> Outcome
  SIGNATURES                 -> {name: fn(case, failure) -> bool}   (known-finding recognisers)
  enumerate_cases(tier, seed)-> optional iterable of cases for exhaustive parts (each a dict)

Exit codes: 0 property held on everything explored, 1 violation (with a
``VIOLATION property=<id> replay=<path>`` line), 2 harness error.
"""

import hashlib
import importlib
import json
import multiprocessing
import os
import subprocess
import sys
import time
import traceback

VERIF = os.path.dirname(os.path.dirname(os.path.abspath(__file__)))


class Outcome:
    """Result of executing one case."""

    def __init__(self):
        self.failure = None         # None or {"oracle": str, "detail": str, "step": int}
        self.nontrivial = False
        self.labels = []            # class labels for histograms
        self.counters = {}          # numeric counters to be summed
        self.discard = False        # case outside the domain (e.g. reference budget)
        self.info = {}              # free-form (not aggregated)

    def fail(self, oracle, detail, step=None, **extra):
        if self.failure is None:
            self.failure = dict({"oracle": oracle, "detail": str(detail)[:2000], "step": step}, **extra)
        return self

    def label(self, *names):
        self.labels.extend(names)

    def count(self, name, n=1):
        self.counters[name] = self.counters.get(name, 0) + n


def _library_dir():
    import modelx
    return os.path.dirname(os.path.abspath(modelx.__file__)) + os.sep


def exec_case(prop, case):
    """prop.run_case(case); an exception that escapes from INSIDE the library (innermost frame in the modelx
    package) while the harness drives or observes the model is reported as a failure of the case, not as a
    harness error: the harness makes the same calls on every tree, and on a tree where the property holds they
    return.  Exceptions raised by harness code itself propagate (exit 2)."""
    try:
        return prop.run_case(case)
    except Exception as exc:
        tb = traceback.extract_tb(exc.__traceback__)
        if tb and os.path.abspath(tb[-1].filename).startswith(_library_dir()):
            where = [f for f in tb if "/vf/" in f.filename]
            at = ("%s:%d %s" % (os.path.basename(where[-1].filename), where[-1].lineno, where[-1].line)) if where else "?"
            out = Outcome()
            out.fail("library-exception", "%s: %s escaped from %s:%d (%s) while the harness was at %s" % (
                type(exc).__name__, str(exc)[:300], os.path.basename(tb[-1].filename), tb[-1].lineno, tb[-1].name, at))
            return out
        raise


def case_hash(case):
    return hashlib.sha1(json.dumps(case, sort_keys=True, default=str).encode()).hexdigest()[:16]


def shard_seed(seed, pid, i):
    h = hashlib.sha256(("%s|%s|%s" % (seed, pid, i)).encode()).digest()
    return int.from_bytes(h[:4], "big")


# ----------------------------------------------------------------------------
# known findings

def load_findings(pid):
    path = os.path.join(VERIF, "known_findings.json")
    if not os.path.exists(path):
        return []
    with open(path) as f:
        data = json.load(f)
    return [e for e in data.get("findings", []) if e["property"] == pid]


def load_case(path):
    if not os.path.isabs(path):
        path = os.path.join(VERIF, path)
    with open(path) as f:
        return json.load(f)


def probe_findings(prop):
    """Run the replays of all listed findings.

    Returns (active_known_entries, regressions) where regressions are fixed
    entries whose replay fails again.
    """
    active, regress, lines = [], [], []
    for e in load_findings(prop.ID):
        case = load_case(e["replay"])
        out = exec_case(prop, case)
        if e["status"] == "known":
            if out.failure is not None:
                lines.append("KNOWN-FINDING: property=%s %s %s" % (prop.ID, e["id"], e["title"]))
                active.append(e)
            else:
                lines.append("note: known finding %s no longer reproduces; its region is searched again" % e["id"])
        elif e["status"] == "fixed":
            if out.failure is not None:
                regress.append((e, out.failure))
    return active, regress, lines


def match_known(prop, active, case, failure):
    for e in active:
        fn = prop.SIGNATURES.get(e.get("signature"))
        if fn is None:
            continue
        try:
            if fn(case, failure):
                return e["id"]
        except Exception:
            continue
    return None


# ----------------------------------------------------------------------------
# shrinking (harness-side delta debugging over the operation list)

def ddmin(prop, case, failure, active, deadline):
    """Shrink case["ops"] keeping a failure of the same oracle that is not a known finding."""
    if "ops" not in case or not isinstance(case["ops"], list):
        return case, failure
    oracle = failure["oracle"]

    def still_fails(ops):
        c = dict(case, ops=ops)
        try:
            o = exec_case(prop, c)
        except Exception:
            return None
        if o.failure is not None and o.failure["oracle"] == oracle \
                and match_known(prop, active, c, o.failure) is None:
            return o.failure
        return None

    ops = list(case["ops"])
    # cut everything after the failing step first
    step = failure.get("step")
    if isinstance(step, int) and 0 <= step < len(ops) - 1:
        f = still_fails(ops[:step + 1])
        if f:
            ops, failure = ops[:step + 1], f
    n = 2
    while len(ops) >= 2 and time.time() < deadline:
        chunk = max(1, len(ops) // n)
        reduced = False
        for i in range(0, len(ops), chunk):
            if time.time() >= deadline:
                break
            cand = ops[:i] + ops[i + chunk:]
            if not cand:
                continue
            f = still_fails(cand)
            if f:
                ops, failure = cand, f
                n = max(n - 1, 2)
                reduced = True
                break
        if not reduced:
            if chunk == 1:
                break
            n = min(len(ops), n * 2)
    return dict(case, ops=ops), failure


# ----------------------------------------------------------------------------
# worker

class _Stop(Exception):
    pass


def _worker(args):
    pid, tier, seed, idx, plan, active_ids = args
    try:
        return _worker_inner(pid, tier, seed, idx, plan, active_ids)
    except BaseException:
        return {"harness_error": traceback.format_exc(), "idx": idx}


def _worker_inner(pid, tier, seed, idx, plan, active_ids):
    import hypothesis
    from hypothesis import given, settings, HealthCheck, Phase
    # allow large structured cases: the default entropy budget silently discards big models / long
    # histories, which biases the sample towards small ones (documented knob of the engine)
    import hypothesis.internal.conjecture.engine as _eng
    _eng.BUFFER_SIZE = 64 * 1024
    prop = importlib.import_module("vf.props." + pid.lower())
    active = [e for e in load_findings(pid) if e["id"] in active_ids]
    st = {
        "evaluations": 0, "discarded": 0, "nontrivial": set(), "labels": {}, "counters": {},
        "samples": [], "known_hits": {}, "failures": [], "budget_exhausted": False,
    }
    t0 = time.time()
    deadline = t0 + plan["wall"]

    def record(case, out):
        if out.discard:
            st["discarded"] += 1
            return
        st["evaluations"] += 1
        for l in out.labels:
            st["labels"][l] = st["labels"].get(l, 0) + 1
        for k, v in out.counters.items():
            st["counters"][k] = st["counters"].get(k, 0) + v
        if out.nontrivial:
            h = case_hash(case)
            if h not in st["nontrivial"]:
                st["nontrivial"].add(h)
                if len(st["samples"]) < 2:
                    st["samples"].append(case)

    def one(case):
        if st.get("stopped"):
            # Hypothesis re-executes the example that raised; answer the same way without running it again
            raise _Stop()
        if time.time() > deadline:
            st["budget_exhausted"] = True
            st["stopped"] = True
            raise _Stop()
        out = exec_case(prop, case)
        record(case, out)
        if out.failure is not None:
            kf = match_known(prop, active, case, out.failure)
            if kf:
                st["known_hits"][kf] = st["known_hits"].get(kf, 0) + 1
                return
            small, fl = ddmin(prop, case, out.failure, active, time.time() + plan.get("shrink_wall", 45))
            st["failures"].append({"case": small, "failure": fl})
            st["stopped"] = True
            raise _Stop()

    # exhaustive / enumerated part (sharded by index)
    enum = getattr(prop, "enumerate_cases", None)
    if enum is not None:
        try:
            for j, case in enumerate(enum(tier, seed)):
                if j % plan["shards"] != idx:
                    continue
                one(case)
        except _Stop:
            pass
        st["enumerated"] = True

    strat = prop.strategy(tier) if getattr(prop, "strategy", None) else None
    if strat is not None and not st["failures"] and plan.get("examples", 0) > 0:
        @hypothesis.seed(shard_seed(seed, pid, idx))
        @settings(max_examples=plan["examples"], database=None, deadline=None,
                  derandomize=False, report_multiple_bugs=False,
                  phases=[Phase.generate],
                  suppress_health_check=[HealthCheck.too_slow, HealthCheck.data_too_large,
                                         HealthCheck.large_base_example])
        @given(strat)
        def test(case):
            one(case)
        try:
            test()
        except _Stop:
            pass
    st.pop("stopped", None)
    st["nontrivial"] = sorted(st["nontrivial"])
    st["wall"] = time.time() - t0
    st["idx"] = idx
    return st


# ----------------------------------------------------------------------------
# parent

def write_evidence(prop, tier, seed, cov, wall, violations):
    ev = {
        "property_id": prop.ID,
        "tier": tier,
        "seed": int(seed),
        "level": prop.LEVEL,
        "coverage": cov,
        "assumptions": list(prop.ASSUMPTIONS),
        "wall_s": round(wall, 2),
        "violations": violations,
    }
    evdir = os.path.join(VERIF, "evidence")
    scratch = os.environ.get("VERIF_REPO")
    if scratch and os.path.realpath(scratch) != os.path.realpath("/repo"):
        # a run against a scratch tree (a seeded change, an older commit) does not describe /repo: its record is
        # kept away from the registered evidence files
        evdir = os.path.join("/tmp", "vf_scratch_evidence")
    os.makedirs(evdir, exist_ok=True)
    path = os.path.join(evdir, "%s.json" % prop.ID)
    with open(path, "w") as f:
        json.dump(ev, f, indent=1, sort_keys=True, default=str)
    return path


def confirm_in_fresh_process(pid, path):
    """re-run a replay in a fresh interpreter; True if it still violates"""
    env = dict(os.environ)
    p = subprocess.run([sys.executable, os.path.join(VERIF, "check.py"), pid, "--replay", path],
                       capture_output=True, text=True, env=env, timeout=600)
    return p.returncode == 1, p.stdout + p.stderr


DEFAULT_FUZZ = {"shards": 8, "runs": 200000, "wall": 300}


def run_fuzz_shards(pid, tier, seed, fz, active_ids):
    """-> (list of shard results, note) or (None, error text)"""
    env = dict(os.environ, VERIF_ACTIVE_KNOWN=json.dumps(active_ids))
    probe = subprocess.run([sys.executable, "-c", "import atheris"], capture_output=True, text=True, env=env)
    if probe.returncode != 0:
        return [], "skipped: atheris is not importable (tools/setup.py installs it from the offline wheelhouse)"
    import tempfile
    tmpd = tempfile.mkdtemp(prefix="vffuzz_")
    procs = []
    for i in range(fz["shards"]):
        outp = os.path.join(tmpd, "shard%d.json" % i)
        cmd = [sys.executable, "-m", "vf.fuzzshard", pid, tier, str(seed), str(i), str(fz["runs"]), str(fz["wall"]), outp]
        procs.append((i, outp, subprocess.Popen(cmd, cwd=VERIF, env=env, stdout=subprocess.PIPE, stderr=subprocess.STDOUT,
                                                text=True)))
    res = []
    err = None
    stopped = []
    for i, outp, p in procs:
        timed_out = False
        try:
            txt, _ = p.communicate(timeout=fz["wall"] + 300)
        except subprocess.TimeoutExpired:
            p.kill()
            txt, _ = p.communicate()
            timed_out = True
        if timed_out and os.path.exists(outp):
            # the shard did not come back from one case within its wall budget plus five minutes (the budget is
            # looked at between cases): what it had recorded up to then counts, the rest is inconclusive - a time
            # budget that is hit is never a violation and not a harness error either
            with open(outp) as f:
                r = json.load(f)
            r["budget_exhausted"] = True
            res.append(r)
            stopped.append(i)
            continue
        if p.returncode != 0 or not os.path.exists(outp):
            err = "shard %d exited with %s\n%s" % (i, p.returncode, (txt or "")[-3000:])
            continue
        with open(outp) as f:
            res.append(json.load(f))
    import shutil
    shutil.rmtree(tmpd, ignore_errors=True)
    if err:
        return None, err
    note = "%d libFuzzer shards over Hypothesis' byte stream (atheris, modelx instrumented): %d cases, %d failures" % (
        len(res), sum(r["evaluations"] for r in res), sum(len(r["failures"]) for r in res))
    if stopped:
        note += "; shard(s) %s stopped after exceeding the wall budget by five minutes inside one case (inconclusive)" % stopped
    return res, note


def run_property(pid, tier, seed):
    t0 = time.time()
    prop = importlib.import_module("vf.props." + pid.lower())
    plan = prop.plan(tier)
    scale = float(os.environ.get("VERIF_SCALE", "1"))       # development knob: shrink the budgets of a tier
    if scale != 1:
        plan = dict(plan, examples=max(1, int(plan.get("examples", 0) * scale)))
    violations = []

    active, regress, lines = probe_findings(prop)
    for l in lines:
        print(l)
    for e, fl in regress:
        print("VIOLATION property=%s replay=%s" % (pid, os.path.join(VERIF, e["replay"])))
        print("  fixed finding %s is back: %s: %s" % (e["id"], fl["oracle"], fl["detail"][:300]))
        violations.append(e["id"])

    # committed regression replays (shrunk failures from earlier development) must pass
    rdir = os.path.join(VERIF, "replays", pid)
    listed = {os.path.basename(e["replay"]) for e in load_findings(pid)}
    n_regr = 0
    if os.path.isdir(rdir):
        for fn in sorted(os.listdir(rdir)):
            if not fn.endswith(".json") or fn in listed or fn.startswith("found_"):
                continue
            case = load_case(os.path.join(rdir, fn))
            out = exec_case(prop, case)
            n_regr += 1
            if out.failure is not None and match_known(prop, active, case, out.failure) is None:
                print("VIOLATION property=%s replay=%s" % (pid, os.path.join(rdir, fn)))
                print("  %s: %s" % (out.failure["oracle"], out.failure["detail"][:300]))
                violations.append(fn)

    shards = plan["shards"]
    jobs = [(pid, tier, seed, i, plan, [e["id"] for e in active]) for i in range(shards)]
    ctx = multiprocessing.get_context("spawn")
    with ctx.Pool(min(shards, os.cpu_count() or 1)) as pool:
        results = pool.map(_worker, jobs, chunksize=1)

    herr = [r for r in results if "harness_error" in r]
    if herr:
        print("HARNESS ERROR in shard %s:\n%s" % (herr[0]["idx"], herr[0]["harness_error"]))
        return 2

    # coverage-guided shards (thorough tier): libFuzzer mutates the byte stream Hypothesis decodes into a case
    has_strategy = getattr(prop, "strategy", None) is not None and prop.strategy(tier) is not None
    fz = plan.get("fuzz", DEFAULT_FUZZ if tier == "thorough" and has_strategy else None)
    fuzz_note = None
    if fz and scale != 1:
        fz = dict(fz, wall=max(10, fz["wall"] * scale))
    if fz and not any(r["failures"] for r in results):
        fres, fuzz_note = run_fuzz_shards(pid, tier, seed, fz, [e["id"] for e in active])
        if fres is None:
            print("HARNESS ERROR in a coverage-guided shard:\n%s" % fuzz_note)
            return 2
        results = results + fres

    cov = {
        "evaluations": sum(r["evaluations"] for r in results),
        "discarded_out_of_domain": sum(r["discarded"] for r in results),
        "rule": prop.RULE,
        "samples": [],
        "labels": {},
        "counters": {},
        "excluded_by_known_findings": {},
        "known_findings_active": [e["id"] for e in active],
        "regression_replays_run": n_regr,
        "budget_exhausted": any(r["budget_exhausted"] for r in results),
        "shards": shards,
    }
    if fuzz_note:
        cov["coverage_guided"] = fuzz_note
    nt = set()
    for r in results:
        nt.update(r["nontrivial"])
        for k, v in r["labels"].items():
            cov["labels"][k] = cov["labels"].get(k, 0) + v
        for k, v in r["counters"].items():
            cov["counters"][k] = cov["counters"].get(k, 0) + v
        for k, v in r["known_hits"].items():
            cov["excluded_by_known_findings"][k] = cov["excluded_by_known_findings"].get(k, 0) + v
        for s in r["samples"]:
            if len(cov["samples"]) < 3:
                cov["samples"].append(s)
    cov["distinct_nontrivial"] = len(nt)
    if any(r.get("enumerated") for r in results) and hasattr(prop, "EXHAUSTIVE"):
        cov["exhaustive"] = bool(prop.EXHAUSTIVE(tier)) and not cov["budget_exhausted"]
    extra = getattr(prop, "extra_coverage", None)
    if extra:
        cov.update(extra(tier, cov))

    seen = set()
    nonrepro = []
    for r in results:
        for f in r["failures"]:
            key = (f["failure"]["oracle"], case_hash(f["case"]))
            if key in seen:
                continue
            seen.add(key)
            d = os.path.join(VERIF, "replays", pid)
            os.makedirs(d, exist_ok=True)
            path = os.path.join(d, "found_%s.json" % case_hash(f["case"]))
            with open(path, "w") as fh:
                json.dump(dict(f["case"], _failure=f["failure"]), fh, indent=1, default=str)
            ok, outp = confirm_in_fresh_process(pid, path)
            if not ok:
                # kept apart: alone it means a harness problem (exit 2); next to confirmed violations it is a note
                nonrepro.append((path, f, outp))
                continue
            print("VIOLATION property=%s replay=%s" % (pid, path))
            print("  %s: %s" % (f["failure"]["oracle"], f["failure"]["detail"][:500]))
            violations.append(path)

    for path, f, outp in nonrepro:
        print("%s: a failure does not reproduce in a fresh interpreter (state leak?)" % (
            "note" if violations else "HARNESS ERROR"))
        print("  replay=%s\n  %s: %s" % (path, f["failure"]["oracle"], f["failure"]["detail"][:500]))
        if not violations:
            print(outp[-2000:])
    if nonrepro and not violations:
        write_evidence(prop, tier, seed, cov, time.time() - t0, 0)
        return 2
    if not cov["samples"]:
        cov["samples"] = [r["samples"][0] for r in results if r["samples"]][:1]
    path = write_evidence(prop, tier, seed, cov, time.time() - t0, len(violations))
    print("%s %s seed=%s: %d cases (%d distinct non-trivial), %d violations, %.1fs, evidence %s" % (
        pid, tier, seed, cov["evaluations"], cov["distinct_nontrivial"], len(violations),
        time.time() - t0, os.path.relpath(path, VERIF)))
    if cov["excluded_by_known_findings"]:
        print("  cases attributed to known findings: %s" % cov["excluded_by_known_findings"])
    return 1 if violations else 0


def run_replay(pid, path):
    prop = importlib.import_module("vf.props." + pid.lower())
    case = load_case(path)
    case.pop("_failure", None)
    # A broken tree can make the outcome depend on object addresses (iteration over sets of objects hashed by
    # id); a replay therefore runs the case several times from a clean session with a perturbed heap and reports
    # the first failing run.  On a tree where the property holds every run passes.
    junk = []
    for attempt in range(int(os.environ.get("VERIF_REPLAY_RUNS", "6"))):
        out = exec_case(prop, case)
        if out.failure is not None:
            break
        junk.append([object() for _ in range(997 * (attempt + 1))])
    if out.failure is None:
        print("replay passes: %s" % path)
        return 0
    print("VIOLATION property=%s replay=%s" % (pid, path))
    print("  %s (step %s): %s" % (out.failure["oracle"], out.failure.get("step"), out.failure["detail"]))
    return 1
