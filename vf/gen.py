"""Hypothesis generators for models (as lists of build operations), formulas
from the terminating grammar, and queries.

Generation keeps a reference model (vf.ref.RModel) as its picture of the state:
every generated edit is applied to it optimistically.  The executor skips
operations whose target does not exist, so histories stay meaningful when the
real library rejects an edit the generator expected to be accepted.

Termination: a cells named ``c<k>`` only ever calls cells named ``c<j>``, j < k
(in any space, through any path), object references ``o<j>`` bound to cells of
rank <= j, or itself with a strictly smaller first argument under a guard.
"""

from hypothesis import strategies as st

from . import ref as R
from .drive import apply_ref

SPACE_NAMES = ["S0", "S1", "S2", "S3"]
CHILD_NAMES = ["Ch0", "Ch1"]
REF_NAMES = ["r0", "r1", "r2"]
MREF_NAMES = ["g0", "g1"]
PARAMS = ["x", "y"]


class Feat:
    """feature switches of the model generator"""

    def __init__(self, **kw):
        self.inherit = False        # direct bases
        self.items = False          # parameter formulas / ItemSpaces
        self.uncached = False       # uncached cells
        self.objrefs = False        # object-valued references
        self.attrpaths = True       # attribute-path reads
        self.shadow = False         # names shadowing built-ins
        self.defform = True         # def-form formulas
        self.recursion = True       # guarded self recursion
        self.fail = False           # _fail fault points
        self.max_top = 3
        self.max_child = 2
        self.max_cells = 4
        self.max_rank = 5
        self.depth = 3              # expression depth
        self.tick = True
        self.uncached_p = 4         # one in N cells is uncached
        self.allow_none = False     # some cells allow (and sometimes return) None
        self.item_base = False      # parameter formulas may choose another base space
        self.export_safe = False    # only constructs inside the documented export subset
        self.item_refs = True       # parameter formulas may return extra references
        self.partial = False        # formulas that fail naturally for some arguments (12 // x)
        self.item_reads_cells = False   # parameter formulas may compute a returned reference with a cells
        self.item_reads_refs = False    # parameter formulas may read a reference of the space
        self.__dict__.update(kw)


def rank_of(name):
    if name.startswith("c") and name[1:2].isdigit():
        return int(name[1])
    if name.startswith("o") and name[1:2].isdigit():
        return int(name[1])
    return -1


# ----------------------------------------------------------------------------
# what can a formula in `space` mention?

def visible_cells(G, space, below):
    """[(name, params)] of cells of rank < below visible by name in ``space``"""
    out = []
    for n in G.cells_names(space):
        r = rank_of(n)
        if 0 <= r < below:
            out.append((n, G.find_cells(space, n)[1].params))
    return out


def visible_refs(G, space):
    names = [n for n in G.ref_names(space) if n[0] in "rg"]
    for n in G.refs:
        if n[0] in "rg" and n not in names and not n.startswith("_"):
            names.append(n)
    return names


def param_names(G, space):
    """parameter names and formula-returned reference names visible inside instances of ``space``"""
    out = []
    s = space
    while s is not None:
        if s.formula is not None:
            for p, _ in s.formula["params"]:
                if p not in out:
                    out.append(p)
            ret = s.formula.get("ret") or {}
            for n in (ret.get("refs") or {}):
                if n not in out:
                    out.append(n)
        s = s.parent
    return out


def int_ref_names(G, space):
    out = list(param_names(G, space))
    for n in visible_refs(G, space):
        f = G.find_ref(space, n)
        v = f[1].value if f else G.refs.get(n)
        if isinstance(v, int) and not isinstance(v, bool):
            out.append(n)
    return out


# ----------------------------------------------------------------------------
# expressions

EXPORT_SAFE = [False]      # set by generators that must stay inside the export subset


def small_int():
    return st.integers(min_value=0, max_value=9)


def gen_arg(draw, env_vars, rec=False):
    """an argument expression with a small value range"""
    choice = draw(st.integers(0, 3))
    if env_vars and choice <= 1:
        v = draw(st.sampled_from(env_vars))
        return ["mod", ["bin", "+", ["var", v], ["lit", draw(st.integers(0, 2))]], 3]
    return ["lit", draw(st.integers(0, 2))]


def gen_call_args(draw, params, env_vars):
    """positional args for a callee with ``params``; trailing defaults may be omitted"""
    n = len(params)
    nreq = len([p for p in params if p[1] is None])
    k = draw(st.integers(nreq, n)) if n > nreq else n
    return [gen_arg(draw, env_vars) for _ in range(k)]


def gen_call(draw, target, params, env_vars, allow_kw=True):
    args = gen_call_args(draw, params, env_vars)
    style = draw(st.sampled_from(["()", "()", "[]", "kw", "value"]))
    if EXPORT_SAFE[0] and style in ("[]", "value") and target[0] != "name":
        style = "()"        # exported cells are plain methods: no subscription / .value through attribute paths
    if EXPORT_SAFE[0] and style == "value":
        style = "()"
    if target[0] == "name" and style in ("[]", "value"):
        # inside formulas a cells reached *by name* is bound to a plain callable in this
        # version (no subscription / .value); attribute paths give the Cells object
        style = "()"
    if style == "value" and not params:
        return ["value", target]
    if style == "kw" and args and allow_kw:
        kws = [[p[0], a] for p, a in zip(params, args)]
        return ["kwcall", target, list(draw(st.permutations(kws)))]
    if style == "[]" and len(args) == len(params) and len(args) >= 1:
        return ["call", target, args, "[]"]
    return ["call", target, args, "()"]


def gen_expr(draw, G, space, rank, env_vars, feat, depth, selfcall=None):
    """an int-valued expression for a cells of ``rank`` defined in ``space``"""
    if depth <= 0:
        kind = draw(st.sampled_from(["lit", "var", "ref", "ref"]))
    else:
        kind = draw(st.sampled_from(
            ["lit", "var", "ref", "attrref", "call", "call", "call", "attrcall", "bin", "bin",
             "ifgt", "sum", "lam", "bi", "item", "objcall", "fail"] + (["fail", "fail", "call", "call"]
                                                                        if feat.fail else [])))
    if kind == "var" and env_vars:
        return ["var", draw(st.sampled_from(env_vars))]
    if kind == "ref":
        names = int_ref_names(G, space)
        if names:
            return ["name", draw(st.sampled_from(names))]
    if kind == "attrref" and feat.attrpaths:
        e = gen_attr_ref(draw, G, space)
        if e is not None:
            return e
    if kind == "call":
        cs = visible_cells(G, space, rank)
        if cs:
            n, params = draw(st.sampled_from(cs))
            return gen_call(draw, ["name", n], params, env_vars)
    if kind == "attrcall" and feat.attrpaths:
        e = gen_attr_call(draw, G, space, rank, env_vars)
        if e is not None:
            return e
    if kind == "objcall" and feat.objrefs:
        cands = []
        for n in G.ref_names(space):
            if n.startswith("o") and rank_of(n) < rank:
                f = G.find_ref(space, n)
                if isinstance(f[1].value, R.Obj):
                    r = G.resolve_obj(f[1].value.path)
                    if r and r[0] == "cells":
                        cands.append((n, G.find_cells(r[1], r[2])[1].params))
        if cands:
            n, params = draw(st.sampled_from(cands))
            return ["call", ["name", n], gen_call_args(draw, params, env_vars), "()"]
    if kind == "item" and feat.items:
        e = gen_item_call(draw, G, space, rank, env_vars)
        if e is not None:
            return e
    if kind == "bin" and feat.partial and env_vars and draw(st.integers(0, 3)) == 0:
        # fails (ZeroDivisionError) when the parameter is 0
        return ["bin", "//", ["lit", draw(st.sampled_from([12, 30]))], ["var", draw(st.sampled_from(env_vars))]]
    if kind == "bin":
        op = draw(st.sampled_from(["+", "+", "-", "*"]))
        return ["bin", op,
                gen_expr(draw, G, space, rank, env_vars, feat, depth - 1),
                gen_expr(draw, G, space, rank, env_vars, feat, depth - 1)]
    if kind == "ifgt":
        return ["ifgt", gen_expr(draw, G, space, rank, env_vars, feat, depth - 1),
                draw(st.integers(0, 5)),
                gen_expr(draw, G, space, rank, env_vars, feat, depth - 1),
                gen_expr(draw, G, space, rank, env_vars, feat, depth - 1)]
    if kind == "sum":
        v = "i" if "i" not in env_vars else "j"
        if v not in env_vars:
            k = draw(st.integers(1, 3))
            body = gen_expr(draw, G, space, rank, env_vars + [v], feat, depth - 1)
            return [draw(st.sampled_from(["sum", "lst"])), v, k, body]
    if kind == "lam":
        v = "z" if "z" not in env_vars else None
        if v:
            body = gen_expr(draw, G, space, rank, env_vars + [v], feat, depth - 1)
            return ["lam", v, body, gen_arg(draw, env_vars)]
    if kind == "bi":
        f = draw(st.sampled_from(["max", "min", "abs"]))
        a = gen_expr(draw, G, space, rank, env_vars, feat, depth - 1)
        if f == "abs":
            return ["call", ["name", "abs"], [a], "()"]
        b = gen_expr(draw, G, space, rank, env_vars, feat, depth - 1)
        return ["call", ["name", f], [a, b], "()"]
    if kind == "fail" and feat.fail:
        tag = "f%d" % draw(st.integers(0, 2))
        inner = gen_expr(draw, G, space, rank, env_vars, feat, depth - 1)
        if draw(st.integers(0, 2)) == 0:
            return ["failnone", tag, inner]
        return ["bin", "+", ["fail", tag], inner]
    return ["lit", draw(small_int())]


def _space_exprs(G, space):
    """[(expr, RSpace)] ways to name a static space from a formula in ``space``"""
    out = [(["name", "_space"], space)]
    for n, ch in space.children.items():
        out.append((["name", n], ch))
        out.append((["attr", ["name", "_space"], n], ch))
        for n2, ch2 in ch.children.items():
            out.append((["attr", ["name", n], n2], ch2))
    for n, top in G.spaces.items():
        out.append((["attr", ["name", "_model"], n], top))
        for n2, ch in top.children.items():
            out.append((["attr", ["attr", ["name", "_model"], n], n2], ch))
    return out


def gen_attr_ref(draw, G, space):
    cands = []
    for e, sp in _space_exprs(G, space):
        if sp.formula is not None and e != ["name", "_space"]:
            pass
        for n in int_ref_names(G, sp):
            cands.append(["attr", e, n])
    for n, v in G.refs.items():
        if n[0] == "g" and isinstance(v, int):
            cands.append(["attr", ["name", "_model"], n])
    if not cands:
        return None
    return draw(st.sampled_from(cands))


def gen_attr_call(draw, G, space, rank, env_vars):
    cands = []
    for e, sp in _space_exprs(G, space):
        for n, params in visible_cells(G, sp, rank):
            cands.append((["attr", e, n], params))
    if not cands:
        return None
    t, params = draw(st.sampled_from(cands))
    return gen_call(draw, t, params, env_vars)


ITEM_REF_READS = [False]    # switch (set by C02): formulas may read a returned reference off an instance


def gen_item_call(draw, G, space, rank, env_vars):
    """P(args).c<j>(args) for a parametrised space P nameable from ``space``"""
    cands = []
    for e, sp in _space_exprs(G, space):
        if sp.formula is not None and e != ["name", "_space"] and sp is not space:
            base = sp
            cs = visible_cells(G, base, rank)
            if cs:
                cands.append((e, sp, cs))
    if not cands:
        return None
    e, sp, cs = draw(st.sampled_from(cands))
    pargs = gen_call_args(draw, sp.formula["params"], env_vars)
    style = draw(st.sampled_from(["()", "[]"]))
    if style == "[]" and len(pargs) != len(sp.formula["params"]):
        style = "()"
    if style == "[]" and not pargs:
        style = "()"
    item = ["call", e, pargs, style]
    if ITEM_REF_READS[0] and (sp.formula.get("ret") or {}).get("refs") and draw(st.integers(0, 2)) == 0:
        # the reference the parameter formula returned, read off the instance
        return ["attr", item, "k0"]
    n, params = draw(st.sampled_from(cs))
    return gen_call(draw, ["attr", item, n], params, env_vars)


def gen_params(draw, maxn=2):
    n = draw(st.integers(0, maxn))
    ps = []
    seen_default = False
    for i in range(n):
        d = None
        if seen_default or draw(st.integers(0, 3)) == 0:
            d = draw(st.integers(0, 2))
            seen_default = True
        ps.append([PARAMS[i], d])
    return ps


def _names_in(e):
    """plain names an expression reads"""
    out = set()
    if isinstance(e, list):
        if len(e) == 2 and e[0] == "name" and isinstance(e[1], str):
            out.add(e[1])
        for x in e:
            out |= _names_in(x)
    return out


def gen_cells_def(draw, G, space, name, feat, params=None):
    rank = rank_of(name)
    if params is None:
        params = gen_params(draw)
    env = [p for p, _ in params]
    body = gen_expr(draw, G, space, max(rank, 0), env, feat, feat.depth)
    if feat.recursion and params and rank >= 0 and draw(st.integers(0, 3)) == 0:
        # guarded self recursion on the first parameter
        x = params[0][0]
        rest = [["var", p] for p, _ in params[1:]]
        rec = ["call", ["name", name], [["bin", "-", ["var", x], ["lit", 1]]] + rest, "()"]
        body = ["ifgt", ["var", x], 0, ["bin", "+", rec, body], body]
    c = {"name": name, "params": params, "expr": body,
         "cached": True, "allow_none": None,
         "form": draw(st.sampled_from(["lambda", "def"])) if feat.defform else "lambda",
         "tick": feat.tick}
    if c["form"] == "def" and draw(st.integers(0, 3)) == 0:
        # the def statement carries the name of something the body reads (a sibling cells, a reference, a child
        # space): the cells is created under its own name all the same and the body keeps meaning the sibling
        used = sorted(_names_in(body) - {name})
        if used:
            c["defname"] = draw(st.sampled_from(used))
    if feat.uncached and draw(st.integers(0, feat.uncached_p - 1)) == 0:
        c["cached"] = False
    if feat.allow_none and draw(st.integers(0, 3)) == 0:
        c["allow_none"] = True
        if params and draw(st.integers(0, 1)) == 0:
            c["expr"] = ["ifgt", ["var", params[0][0]], 1, ["none"], c["expr"]]
    return c


# ----------------------------------------------------------------------------
# models as build operations

def mro_ok(G):
    try:
        for s in G.all_spaces():
            G.mro(s)
        return True
    except (TypeError, ValueError):
        return False


def fresh_model():
    return R.RModel()


def gen_formula_spec(draw, G, space, feat):
    params = gen_params(draw, 2)
    if not params:
        params = [["x", None]]
    # ItemSpace parameters are p/q so that they do not collide with cells parameters
    params = [[{"x": "p", "y": "q"}[p], d] for p, d in params]
    f = {"params": params, "ret": None, "form": draw(st.sampled_from(["lambda", "def"]))}
    k = draw(st.integers(0, 5))
    if not feat.item_refs:
        return f
    if k <= 1:
        f["ret"] = {"base": None, "refs": {"k0": ["bin", "+", ["var", params[0][0]], ["lit", draw(small_int())]]}}
    elif k == 2 and feat.item_base:
        others = [t for t in G.spaces.values() if t is not space and t.path != space.path[:1]]
        if others:
            t = draw(st.sampled_from(others))
            f["ret"] = {"base": ["attr", ["name", "_model"], t.name], "refs": None}
    return f


def gen_model_ops(draw, feat, G=None):
    """build operations for a model; returns (ops, G)"""
    G = G or fresh_model()
    ops = []

    def emit(op):
        ops.append(op)
        apply_ref(G, op)

    # model-level references
    for n in MREF_NAMES[:draw(st.integers(0, 2))]:
        emit(["set_ref", [], n, ["v", draw(small_int())], None])
    ntop = draw(st.integers(1, feat.max_top))
    paths = []
    for i in range(ntop):
        emit(["new_space", [], SPACE_NAMES[i], None, None])
        paths.append([SPACE_NAMES[i]])
        nch = draw(st.integers(0, feat.max_child))
        for j in range(nch):
            emit(["new_space", [SPACE_NAMES[i]], CHILD_NAMES[j], None, None])
            paths.append([SPACE_NAMES[i], CHILD_NAMES[j]])
            if draw(st.integers(0, 4)) == 0:
                # a grandchild, sometimes named like a child of the same top-level space
                gname = draw(st.sampled_from(["Gc0", "Gc0", CHILD_NAMES[0], CHILD_NAMES[1]]))
                emit(["new_space", [SPACE_NAMES[i], CHILD_NAMES[j]], gname, None, None])
                paths.append([SPACE_NAMES[i], CHILD_NAMES[j], gname])
    # references
    for p in paths:
        for n in REF_NAMES:
            if draw(st.integers(0, 2)) == 0:
                emit(["set_ref", p, n, ["v", draw(small_int())], None])
    # shadowing a model-level name in a space
    if G.refs and draw(st.integers(0, 2)) == 0:
        p = draw(st.sampled_from(paths))
        emit(["set_ref", p, draw(st.sampled_from(sorted(G.refs))), ["v", draw(small_int())], None])
    # parameter formulas
    if feat.items:
        for p in paths:
            if draw(st.integers(0, 2)) == 0:
                emit(["set_formula", p, gen_formula_spec(draw, G, G.space(tuple(p)), feat)])
    # inheritance (acyclic by construction: bases have a smaller index)
    if feat.inherit:
        for i, p in enumerate(paths):
            cands = [q for q in paths[:i] if q != p[:len(q)] and p != q[:len(p)]]
            if cands and draw(st.integers(0, 1)) == 0:
                k = draw(st.integers(1, min(2, len(cands))))
                bs = draw(st.permutations(cands))[:k]
                sp = G.space(tuple(p))
                saved = list(sp.bases)
                sp.bases = saved + [tuple(b) for b in bs]
                ok = mro_ok(G)
                sp.bases = saved
                if ok:
                    emit(["add_bases", p, [list(b) for b in bs]])
    # cells, in rank order so that callees exist
    allnames = ["c%d" % r for r in range(feat.max_rank + 1)]
    plan = []
    for p in paths:
        k = draw(st.integers(1, feat.max_cells))
        names = sorted(draw(st.lists(st.sampled_from(allnames), min_size=k, max_size=k, unique=True)))
        for n in names:
            plan.append((rank_of(n), p, n))
    if feat.shadow and draw(st.integers(0, 2)) == 0:
        p = draw(st.sampled_from(paths))
        n = draw(st.sampled_from(["max", "min"]))
        c = {"name": n, "params": [["x", None], ["y", None]],
             "expr": ["bin", "+", ["bin", "*", ["var", "x"], ["lit", 10]], ["var", "y"]],
             "cached": True, "allow_none": None, "form": "lambda", "tick": feat.tick}
        emit(["new_cells", p, c])
    plan.sort(key=lambda t: t[0])
    for r, p, n in plan:
        sp = G.space(tuple(p))
        if G.find_cells(sp, n) is not None and n not in sp.cells:
            # derived here: occasionally override through the formula setter
            if draw(st.integers(0, 2)) == 0:
                old = G.find_cells(sp, n)[1]
                emit(["set_cells_formula", p, n, gen_cells_def(draw, G, sp, n, feat, params=old.params)])
            continue
        emit(["new_cells", p, gen_cells_def(draw, G, sp, n, feat)])
    # a parameter formula whose returned reference is computed by a cells of the space (a leaf cells: it calls
    # nothing but itself): the instance depends on that element
    if feat.items and feat.item_refs and feat.item_reads_refs:
        # ... or reads a reference of the space by name
        for p in paths:
            sp = G.space(tuple(p))
            f = sp.formula
            def _refval(n, sp=sp):
                fr = G.find_ref(sp, n)
                r = fr[1] if fr else G.refs.get(n)
                return getattr(r, "value", r)
            names = [n for n in visible_refs(G, sp) if type(_refval(n)) is int] if f is not None else []
            if f is None or not f.get("ret") or not f["ret"].get("refs") or not names:
                continue
            if draw(st.integers(0, 3)) != 0:
                f2 = {"params": f["params"], "form": f["form"],
                      "ret": {"base": f["ret"].get("base"),
                              "refs": {"k0": ["bin", "+", f["ret"]["refs"]["k0"], ["name", draw(st.sampled_from(names))]]}}}
                emit(["set_formula", p, f2])
    if feat.items and feat.item_refs and feat.item_reads_cells:
        for p in paths:
            sp = G.space(tuple(p))
            f = sp.formula
            if f is None or not f.get("ret") or not f["ret"].get("refs") or "c0" not in sp.cells:
                continue
            if draw(st.integers(0, 3)) != 0:
                cps = sp.cells["c0"].params
                args = [["var", f["params"][0][0]]] + [["lit", 1] for q in cps[1:] if q[1] is None]
                if not cps:
                    args = []
                f2 = {"params": f["params"], "form": f["form"],
                      "ret": {"base": f["ret"].get("base"),
                              "refs": {"k0": ["bin", "+", f["ret"]["refs"]["k0"], ["call", ["name", "c0"], args, "()"]]}}}
                emit(["set_formula", p, f2])
    # a model-level reference named like a cells of some space (cells take precedence inside that space)
    if feat.shadow and draw(st.integers(0, 2)) == 0:
        p = draw(st.sampled_from(paths))
        cs = [n for n in G.space(tuple(p)).cells if rank_of(n) >= 0]
        if cs:
            emit(["set_ref", [], draw(st.sampled_from(cs)), ["v", draw(small_int())], None])
    # object-valued references to cells
    if feat.objrefs:
        for p in paths:
            if draw(st.integers(0, 2)) == 0:
                sp = G.space(tuple(p))
                mode = draw(st.sampled_from([None, "auto", "absolute"]))
                if feat.export_safe:
                    anc = sp
                    while anc is not None:
                        if anc.formula is not None:
                            mode = "absolute"   # relative references inside ItemSpaces are outside the export subset
                        anc = anc.parent
                # auto/relative targets are the definer's own cells (the case C10 states for static
                # derivation); other targets are bound absolutely, so that no deriving space ends up
                # with a reference to a non-existent counterpart
                tgt_space = sp if mode != "absolute" else G.space(tuple(draw(st.sampled_from(paths))))
                # only cells *defined* in the target space: derived copies are re-created by base edits
                cs = [n for n in tgt_space.cells if rank_of(n) >= 0]
                if cs:
                    cn = draw(st.sampled_from(cs))
                    emit(["set_ref", p, "o%d" % rank_of(cn), ["o", list(tgt_space.path) + [cn]], mode])
    return ops, G


# ----------------------------------------------------------------------------
# queries

def all_ctx_ids(G):
    """idtuples of static spaces"""
    return [s.path for s in G.all_spaces()]


ODD_ARGS = [False]      # switch (set by C01): subscription with defaults left out, tuple-like argument values


def gen_query(draw, G, sids=None):
    """["eval", sid, name, args, kwargs, style] on some cells of the model"""
    sids = sids or all_ctx_ids(G)
    cands = []
    ev = R.Evaluator(G)
    for sid in sids:
        try:
            ctx = ev.ctx_of(sid)
        except Exception:
            continue
        for n in G.cells_names(ctx.base):
            cands.append((sid, n, G.find_cells(ctx.base, n)[1].params))
    if not cands:
        return None
    sid, n, params = draw(st.sampled_from(cands))
    nreq = len([p for p in params if p[1] is None])
    k = draw(st.integers(nreq, len(params)))
    args = [draw(st.integers(0, 3)) for _ in range(k)]
    style = draw(st.sampled_from(["()", "()", "kw", "[]", "value"]))
    if style == "value" and params:
        style = "()"
    if style == "[]" and ((k != len(params) and not ODD_ARGS[0]) or k == 0):
        style = "()"
    if ODD_ARGS[0] and args and style != "kw" and draw(st.integers(0, 7)) == 0:
        # an argument that is a tuple or an instance of a tuple subclass (one argument, never unpacked)
        j = draw(st.integers(0, len(args) - 1))
        v = [draw(st.integers(0, 2)), draw(st.integers(0, 2))]
        if draw(st.booleans()) or (style == "[]" and len(args) == 1):
            args[j] = {"nt": v}
        else:
            # (plain tuples from another value range: Pt(1, 0) == (1, 0) would be the same element, served with
            #  whichever object was computed first)
            args[j] = [v[0] + 5, v[1] + 5]
    if style == "kw":
        if not args:
            style = "()"
        else:
            # mixed: first positional, rest keyword
            npos = draw(st.integers(0, len(args) - 1))
            order = draw(st.permutations(list(range(npos, len(args)))))
            kw = {params[i][0]: args[i] for i in order}
            return ["eval", list(sid), n, args[:npos], kw, "()"]
    return ["eval", list(sid), n, args, None, style]


# ----------------------------------------------------------------------------
# history operations (edits of every kind the properties list)

EDIT_KINDS = [
    "set_value", "set_value", "clear_value", "set_ref", "set_ref", "set_ref", "shadow_ref", "del_ref",
    "set_mref", "set_mref", "del_mref", "set_cells_formula", "set_cells_formula", "override", "new_cells",
    "del_cells", "rename_cells", "new_space", "del_space", "rename_space", "add_bases", "remove_bases",
    "set_formula", "del_formula", "set_cached", "copy_cells", "copy_space",
]


def item_sids(G, maxn=2):
    """idtuples of a few ItemSpaces of parametrised static spaces"""
    out = []
    for s in G.all_spaces():
        if s.formula is not None:
            n = len(s.formula["params"])
            for a in range(maxn):
                out.append(s.path + ((a,) * n,))
            # the dynamic children of the first instance, and an instance of a parametrised child inside it
            for cn, ch in s.children.items():
                out.append(s.path + ((0,) * n, cn))
                if ch.formula is not None:
                    out.append(s.path + ((0,) * n, cn, (1,) * len(ch.formula["params"])))
    return out


def gen_edit(draw, G, feat, kinds=None):
    """one edit operation meaningful in state G (or None)"""
    spaces = G.all_spaces()
    if not spaces:
        return None
    kind = draw(st.sampled_from(kinds or EDIT_KINDS))
    s = draw(st.sampled_from(spaces))
    p = list(s.path)
    cnames = ["c%d" % i for i in range(feat.max_rank + 1)]
    if kind == "set_value":
        sids = [t.path for t in spaces] + (item_sids(G) if feat.items else [])
        sid = draw(st.sampled_from(sids))
        try:
            ctx = R.Evaluator(G).ctx_of(sid)
        except Exception:
            return None
        # (assignments to uncached cells are requested now and then: they must be refused)
        cs = [n for n in G.cells_names(ctx.base) if G.find_cells(ctx.base, n)[1].cached or draw(st.integers(0, 3)) == 0]
        if not cs:
            return None
        n = draw(st.sampled_from(cs))
        params = G.find_cells(ctx.base, n)[1].params
        key = [draw(st.integers(0, 2)) for _ in params]
        op = ["set_value", _jsid(sid), n, key, draw(st.integers(20, 99))]
        if not params and all(isinstance(x, str) for x in sid) and draw(st.booleans()):
            op.append("attr")       # spelled ``space.name = value``
        return op
    if kind == "copy_cells":
        cs = G.cells_names(s)
        if not cs:
            return None
        t = draw(st.sampled_from(spaces))
        new = draw(st.sampled_from(cnames))
        if G.find_cells(t, new) is not None or new in t.children or G.find_ref(t, new) is not None:
            return None
        return ["copy_cells", p, draw(st.sampled_from(cs)), list(t.path), new]
    if kind == "copy_space":
        parents = [None] + [t for t in spaces if t.path[:len(s.path)] != s.path]
        t = draw(st.sampled_from(parents))
        new = draw(st.sampled_from(["Cp0", "Cp1"]))
        if (t is None and new in G.spaces) or (t is not None and (new in t.children or G.find_cells(t, new) is not None)):
            return None
        return ["copy_space", p, list(t.path) if t is not None else [], new]
    if kind == "clear_value":
        if not G.inputs:
            return None
        (sid, n), d = draw(st.sampled_from(sorted(G.inputs.items(), key=repr)))
        if not d:
            return ["clear_all", _jsid(sid), n]
        key = draw(st.sampled_from(sorted(d, key=repr)))
        return draw(st.sampled_from([["clear_at", _jsid(sid), n, list(key)], ["clear_all", _jsid(sid), n]]))
    if kind == "set_ref":
        existing = [(list(t.path), n) for t in spaces for n in t.refs if n[0] == "r"]
        if existing and draw(st.integers(0, 2)) != 0:
            p, n = draw(st.sampled_from(existing))
        else:
            n = draw(st.sampled_from(REF_NAMES))
        return ["set_ref", p, n, ["v", draw(st.integers(10, 99))], None]
    if kind == "shadow_ref":
        # a space-level name equal to a model-level one, or a sub-space name equal to a derived one
        names = [n for n in G.refs if n[0] == "g"] + [n for n in G.ref_names(s) if n not in s.refs]
        if not names:
            return None
        return ["set_ref", p, draw(st.sampled_from(names)), ["v", draw(st.integers(10, 99))], None]
    if kind == "del_ref":
        own = sorted(s.refs)
        if not own:
            return None
        return ["del_ref", p, draw(st.sampled_from(own))]
    if kind == "set_mref":
        return ["set_ref", [], draw(st.sampled_from(MREF_NAMES)), ["v", draw(st.integers(10, 99))], None]
    if kind == "del_mref":
        own = sorted(n for n in G.refs if n[0] == "g")
        if not own:
            return None
        return ["del_ref", [], draw(st.sampled_from(own))]
    if kind == "set_cells_formula":
        own = sorted(s.cells)
        if not own:
            return None
        n = draw(st.sampled_from(own))
        return ["set_cells_formula", p, n, gen_cells_def(draw, G, s, n, feat, params=s.cells[n].params)]
    if kind == "override":
        derived = [n for n in G.cells_names(s) if n not in s.cells]
        if not derived:
            return None
        n = draw(st.sampled_from(derived))
        old = G.find_cells(s, n)[1]
        return ["set_cells_formula", p, n, gen_cells_def(draw, G, s, n, feat, params=old.params)]
    if kind == "new_cells":
        free = [n for n in cnames if G.find_cells(s, n) is None]
        if not free:
            return None
        return ["new_cells", p, gen_cells_def(draw, G, s, draw(st.sampled_from(free)), feat)]
    if kind == "del_cells":
        own = sorted(s.cells)
        if not own:
            return None
        return ["del_cells", p, draw(st.sampled_from(own))]
    if kind == "rename_cells":
        own = sorted(s.cells)
        if not own:
            return None
        n = draw(st.sampled_from(own))
        new = draw(st.sampled_from(cnames))
        if new == n or G.find_cells(s, new) is not None:
            return None
        return ["rename_cells", p, n, new]
    if kind == "set_cached":
        own = sorted(s.cells)
        if not own:
            return None
        n = draw(st.sampled_from(own))
        return ["set_cached", p, n, not s.cells[n].cached]
    if kind == "new_space":
        parent = draw(st.sampled_from([None] + spaces))
        if parent is None:
            free = [n for n in SPACE_NAMES + ["S4"] if n not in G.spaces]
            pp = []
        else:
            free = [n for n in CHILD_NAMES + ["Ch2"] if n not in parent.children]
            pp = list(parent.path)
        if not free:
            return None
        bases = None
        if feat.inherit and draw(st.integers(0, 1)) == 0:
            cands = [t for t in spaces if parent is None or
                     (t.path != parent.path[:len(t.path)] and parent.path != t.path[:len(parent.path)])]
            if cands:
                bases = [list(draw(st.sampled_from(cands)).path)]
        return ["new_space", pp, free[0], bases, None]
    if kind == "del_space":
        if len(spaces) <= 1:
            return None
        return ["del_space", p]
    if kind == "rename_space":
        cont = G.spaces if s.parent is None else s.parent.children
        pool = (SPACE_NAMES + ["S4"]) if s.parent is None else (CHILD_NAMES + ["Ch2", "Gc0", "Gc1"])
        free = [n for n in pool if n not in cont]
        if not free:
            return None
        return ["rename_space", p, draw(st.sampled_from(free))]
    if kind == "add_bases":
        if not feat.inherit:
            return None
        cands = []
        for t in spaces:
            if t is s or t.path == s.path[:len(t.path)] or s.path == t.path[:len(s.path)]:
                continue
            if t.path in [tuple(b) for b in s.bases]:
                continue
            try:
                if s in G.mro(t):
                    continue
            except (TypeError, ValueError):
                continue
            cands.append(t)
        if not cands:
            return None
        t = draw(st.sampled_from(cands))
        saved = list(s.bases)
        s.bases = saved + [t.path]
        ok = mro_ok(G)
        s.bases = saved
        if not ok:
            return None
        return ["add_bases", p, [list(t.path)]]
    if kind == "remove_bases":
        if not s.bases:
            return None
        return ["remove_bases", p, [list(draw(st.sampled_from(s.bases)))]]
    if kind == "set_formula":
        if not feat.items:
            return None
        return ["set_formula", p, gen_formula_spec(draw, G, s, feat)]
    if kind == "del_formula":
        if s.formula is None:
            return None
        return ["set_formula", p, None]
    return None


def _jsid(sid):
    return [list(x) if isinstance(x, tuple) else x for x in sid]


def has_dangling(G):
    """some object-valued reference points at something that no longer exists"""
    for s in G.all_spaces():
        for r in s.refs.values():
            if isinstance(r.value, R.Obj) and G.resolve_obj(r.value.path) is None:
                return True
    for v in G.refs.values():
        if isinstance(v, R.Obj) and G.resolve_obj(v.path) is None:
            return True
    return False


def obj_ref_paths(G):
    out = []
    for s in G.all_spaces():
        for r in s.refs.values():
            if isinstance(r.value, R.Obj):
                out.append(r.value.path)
    for v in G.refs.values():
        if isinstance(v, R.Obj):
            out.append(v.path)
    return out


def kills_ref_target(G, op):
    """the operation deletes an object some reference points at (the reference would dangle)"""
    if op[0] == "del_cells":
        tgt = tuple(op[1]) + (op[2],)
        return any(p == tgt for p in obj_ref_paths(G))
    if op[0] == "del_space":
        tgt = tuple(op[1])
        return any(p[:len(tgt)] == tgt for p in obj_ref_paths(G))
    return False


def apply_edit_to_picture(G, op, allow_dangling=False):
    """apply ``op`` to the generator's picture; False (picture unchanged) if it has no meaning
    there, makes the base relation inconsistent or leaves an object reference dangling"""
    import copy
    if not allow_dangling and kills_ref_target(G, op):
        return False
    saved = copy.deepcopy(G.__dict__)
    try:
        apply_ref(G, op)
        ok = mro_ok(G) and (allow_dangling or not has_dangling(G))
    except Exception:
        ok = False
    if not ok:
        G.__dict__.clear()
        G.__dict__.update(saved)
    return ok


# ----------------------------------------------------------------------------
# DAG-shaped models with one fault point per element (C05 / C08 / C16 / C17)

def gen_dag_model(draw, ncells=(4, 7), items=True, uncached=True, none_points=False, handled=True, uncached_p=5,
                  lines=True, none_values=False):
    """Build operations for a model whose cells form a DAG of calls.

    Cells d0..d<n-1>; d<k> calls 1-3 cells of lower index (by name, by attribute path, or through an
    ItemSpace), and starts with a fault point whose tag is 'F<k>_' + str(x) (one tag per element).
    Returns (ops, G, info) with info = {"cells": [(path, name, nparams)], "top": (path, name, nparams)}.
    """
    G = fresh_model()
    ops = []

    def emit(op):
        ops.append(op)
        apply_ref(G, op)

    emit(["new_space", [], "S0", None, None])
    paths = [["S0"]]
    if draw(st.booleans()):
        emit(["new_space", ["S0"], "Ch0", None, None])
        paths.append(["S0", "Ch0"])
    ppath = None
    if items and draw(st.booleans()):
        emit(["new_space", [], "P", None, None])
        emit(["set_formula", ["P"], {"params": [["p", None]], "ret": None,
                                     "form": draw(st.sampled_from(["lambda", "def"])), "failtag": "PF_"}])
        ppath = ["P"]
        paths.append(ppath)
    emit(["set_ref", [], "g0", ["v", draw(small_int())], None])
    emit(["set_ref", ["S0"], "r0", ["v", draw(small_int())], None])
    n = draw(st.integers(*ncells))
    chainy = draw(st.integers(0, 2)) == 0
    cells = []
    none_valued = set()
    for k in range(n):
        p = draw(st.sampled_from(paths)) if k < n - 1 else ["S0"]
        nparams = draw(st.sampled_from([0, 1, 1, 1]))
        params = [["x", None]][:nparams]
        xs = ["x"] if nparams else []
        terms = [["failx", "F%d_" % k, "x" if nparams else None]]
        lower = cells[:]
        ncall = draw(st.integers(1, 3)) if lower else 0
        if chainy and lower:
            lower = cells[-1:]          # a pure chain: d<k> calls only d<k-1>
            ncall = 1
        for _ in range(ncall):
            q, cn, cnp = draw(st.sampled_from(lower))
            args = []
            if cnp:
                a = draw(st.integers(0, 3))
                if xs and a <= 1:
                    args = [["mod", ["bin", "+", ["var", "x"], ["lit", a]], 3]]
                else:
                    args = [["lit", draw(st.integers(0, 2))]]
            if q == p and draw(st.integers(0, 2)) != 0:
                tgt = ["name", cn]
            elif q == ppath:
                item = ["call", ["attr", ["name", "_model"], "P"], [["lit", draw(st.integers(0, 1))]], "()"]
                tgt = ["attr", item, cn]
            else:
                e = ["name", "_model"]
                for part in q:
                    e = ["attr", e, part]
                tgt = ["attr", e, cn]
            call = ["call", tgt, args, "()"]
            if (tuple(q), cn) in none_valued:
                call = ["isnone", call]         # the callee answers None: only asked whether it does
            elif handled and draw(st.integers(0, 3)) == 0:
                call = ["try", call, ["lit", draw(small_int())]]     # the formula handles a callee's failure itself
            terms.append(call)
        rd = draw(st.sampled_from([
            ["lit", draw(small_int())], ["name", "g0"],
            ["attr", ["attr", ["name", "_model"], "S0"], "r0"],       # reference read by attribute path
            ["attr", ["name", "_model"], "g0"]]))
        if rd[0] != "lit" and draw(st.integers(0, 2)) == 0:
            # the reference is read inside doubly nested code (a generator inside a generator / inside a lambda)
            rd = draw(st.sampled_from([["sum", "i", 1, ["sum", "j", 1, rd]], ["lam", "z", ["sum", "i", 1, rd], ["lit", 0]],
                                       ["sum", "i", 1, ["lam", "z", rd, ["lit", 0]]]]))
        terms.append(rd)
        if rd[0] == "attr" and draw(st.integers(0, 2)) == 0:
            # a second reference read by attribute path in the same formula (the other one of the two)
            terms.append(["attr", ["name", "_model"], "g0"] if rd[2] == "r0"
                         else ["attr", ["attr", ["name", "_model"], "S0"], "r0"])
        if draw(st.booleans()):
            # put the attribute read first so that it happens before the calls
            terms.insert(1, terms.pop())
        body = terms[0]
        for t in terms[1:]:
            body = ["bin", "+", body, t]
        form = draw(st.sampled_from(["lambda", "def", "deflines"] if lines else ["lambda", "def"]))
        if none_points and draw(st.integers(0, 4)) == 0:
            body = ["failnone", "N%d" % k, body]
            if form == "deflines":
                form = "def"
        c = {"name": "d%d" % k, "params": params, "expr": body,
             "cached": not (uncached and draw(st.integers(0, uncached_p - 1)) == 0),
             "allow_none": None, "form": form, "tick": True}
        if none_values and form != "deflines" and draw(st.integers(0, 3)) == 0:
            # a cells that evaluates its terms and answers None (allowed)
            c["expr"] = ["thennone", body]
            c["allow_none"] = True
            none_valued.add((tuple(p), c["name"]))
        if form == "deflines":
            c["terms"] = terms
            c["guards"] = [draw(st.sampled_from([0, 0, 1, 2])) for _ in terms]
            calls = [j for j, t in enumerate(terms) if t[0] == "call"]
            if len(calls) >= 2 and draw(st.integers(0, 2)) == 0:
                # the finally block around one call evaluates the callee of a LATER term for the first time
                i, j = calls[0], calls[-1]
                c["guards"][i] = [3, terms[j]]
        emit(["new_cells", p, c])
        cells.append((p, c["name"], nparams))
    return ops, G, {"cells": cells, "top": cells[-1]}
